//! C09: the on-disk B+tree index against the in-memory index it was built from, through the
//! `IndexProbe` hook: header-multiset shapes x key lengths, every present key and absent keys
//! below / between / above.

use std::sync::atomic::{AtomicUsize, Ordering};
use std::sync::Mutex;

use pearl::verif::index_probe::{IndexProbe, ProbeHeader};
use pearl::{ArrayKey, ReadResult};

use crate::ctl::{self, CtlConfig, IoMode};
use crate::oracle::{finding, Finding};
use crate::world::{self, HKey};

#[derive(Debug, Clone, PartialEq, Eq, Hash, serde::Serialize)]
pub enum Dist {
    /// every key has one version
    Ones,
    /// every key has two versions
    Twos,
    /// one key (position: 0 first, 1 middle, 2 last) carries `r` versions, the others one
    Run { pos: u8, r: usize, flavour: u8 },
}

#[derive(Debug, Clone, serde::Serialize)]
pub struct Shape {
    pub key_len: usize,
    pub n: usize,
    pub dist: Dist,
}

fn key_bytes(i: u64, len: usize) -> Vec<u8> {
    // big-endian counter right-aligned in the key, so that key order == counter order
    let mut v = vec![0u8; len];
    let be = i.to_be_bytes();
    for j in 0..len.min(8) {
        v[len - 1 - j] = be[7 - j];
    }
    v
}

fn headers_of(shape: &Shape) -> Vec<ProbeHeader> {
    let mut out = Vec::new();
    let mut off = 20u64;
    let spaced = shape.key_len > 1 || shape.n <= 127;
    let present = |i: usize| if spaced { 2 * i as u64 + 1 } else { i as u64 };
    let mut push = |out: &mut Vec<ProbeHeader>, k: u64, ts: u64, del: bool| {
        out.push(ProbeHeader { key: key_bytes(k, shape.key_len), timestamp: ts, deleted: del, blob_offset: off, data_size: 7 });
        off += 100;
    };
    let run_at = match &shape.dist {
        Dist::Run { pos, .. } => Some(match pos {
            0 => 0,
            1 => shape.n / 2,
            _ => shape.n - 1,
        }),
        _ => None,
    };
    // interleave keys the way a blob would see them: round robin over versions
    let versions = |i: usize| -> Vec<(u64, bool)> {
        match &shape.dist {
            Dist::Ones => vec![(5, false)],
            Dist::Twos => vec![(5, false), (3, false)],
            Dist::Run { r, flavour, .. } if Some(i) == run_at => (0..*r)
                .map(|v| match flavour {
                    0 => (v as u64 + 1, false),                       // ascending timestamps
                    1 => ((*r - v) as u64, false),                    // descending
                    2 => ((v / 2) as u64 + 1, false),                 // ties
                    _ => ((v as u64 * 7) % 5 + 1, v % 4 == 3),        // mixed with deletion markers
                })
                .collect(),
            Dist::Run { .. } => vec![(5, false)],
        }
    };
    let max_v = (0..shape.n).map(|i| versions(i).len()).max().unwrap_or(0);
    for v in 0..max_v {
        for i in 0..shape.n {
            let vs = versions(i);
            if v < vs.len() {
                push(&mut out, present(i), vs[v].0, vs[v].1);
            }
        }
    }
    out
}

fn probe_keys(shape: &Shape) -> Vec<Vec<u8>> {
    let spaced = shape.key_len > 1 || shape.n <= 127;
    let mut v = Vec::new();
    if spaced {
        for i in 0..=(2 * shape.n as u64 + 1) {
            v.push(key_bytes(i, shape.key_len));
        }
    } else {
        for i in 0..256u64 {
            v.push(key_bytes(i, shape.key_len));
        }
    }
    v
}

fn rr(r: anyhow::Result<ReadResult<ProbeHeader>>) -> Result<String, String> {
    match r {
        Ok(ReadResult::Found(h)) => Ok(format!("found ts={} off={}", h.timestamp, h.blob_offset)),
        Ok(ReadResult::Deleted(ts)) => {
            let t: u64 = ts.into();
            Ok(format!("deleted ts={t}"))
        }
        Ok(ReadResult::NotFound) => Ok("notfound".into()),
        Err(e) => Err(format!("{e:#}")),
    }
}

async fn check_shape<K: HKey>(shape: Shape, dir: std::path::PathBuf) -> (usize, Vec<Finding>) {
    let mut fs = Vec::new();
    let path = dir.join("x.0.index");
    let _ = std::fs::remove_file(&path);
    let headers = headers_of(&shape);
    let blob_size = 20 + 100 * headers.len() as u64;
    let mut lookups = 0usize;
    let mut probe: IndexProbe<K> = match IndexProbe::new(&path, None) {
        Ok(p) => p,
        Err(e) => return (0, vec![finding("machinery", format!("{e:#}"))]),
    };
    for h in &headers {
        if let Err(e) = probe.push(h) {
            return (0, vec![finding("push", format!("{e:#}"))]);
        }
    }
    let keys = probe_keys(&shape);
    let mut mem_latest = Vec::new();
    let mut mem_all = Vec::new();
    for k in &keys {
        mem_latest.push(rr(probe.get_latest(k).await));
        mem_all.push(probe.get_all_with_deletion_marker(k).await.map_err(|e| format!("{e:#}")));
    }
    let mem_count = probe.count();
    let mem_snapshot = probe.snapshot();
    let dumped = {
        let _ext = pearl::verif::external_section();
        probe.dump(blob_size).await
    };
    if let Err(e) = dumped {
        return (0, vec![finding("dump", format!("{e:#}"))]);
    }
    if !probe.on_disk() {
        return (0, vec![finding("dump", "index is not on disk after dump".to_string())]);
    }
    if probe.count() != mem_count {
        fs.push(finding("count", format!("count on disk {}, in memory {}", probe.count(), mem_count)));
    }
    for (i, k) in keys.iter().enumerate() {
        lookups += 2;
        let d = rr(probe.get_latest(k).await);
        if d != mem_latest[i] {
            fs.push(finding("get_latest", format!("key #{i}: on disk {:?}, in memory {:?}", d, mem_latest[i])));
        }
        let a = probe.get_all_with_deletion_marker(k).await.map_err(|e| format!("{e:#}"));
        if a != mem_all[i] {
            fs.push(finding(
                "get_all",
                format!(
                    "key #{i}: on disk {:?}, in memory {:?}",
                    a.as_ref().map(|v| v.iter().map(|h| (h.timestamp, h.deleted, h.blob_offset)).collect::<Vec<_>>()),
                    mem_all[i].as_ref().map(|v| v.iter().map(|h| (h.timestamp, h.deleted, h.blob_offset)).collect::<Vec<_>>())
                ),
            ));
        }
        if fs.len() > 5 {
            break;
        }
    }
    // a second handle opened from the file answers the same (validates header / metadata)
    {
        let _ext = pearl::verif::external_section();
        match IndexProbe::<K>::open(&path, None, blob_size).await {
            Ok(p2) => {
                for (i, k) in keys.iter().enumerate().step_by(7) {
                    lookups += 1;
                    let d = rr(p2.get_latest(k).await);
                    if d != mem_latest[i] {
                        fs.push(finding("reopened.get_latest", format!("key #{i}: reopened file {:?}, in memory {:?}", d, mem_latest[i])));
                        break;
                    }
                }
            }
            Err(e) => fs.push(finding("open", format!("the dumped file does not open: {e:#}"))),
        }
    }
    // load back
    match probe.load(blob_size).await {
        Err(e) => fs.push(finding("load", format!("{e:#}"))),
        Ok(()) => {
            if probe.snapshot() != mem_snapshot {
                fs.push(finding("load", "the map loaded back from the file differs from the one that was dumped".to_string()));
            }
            if probe.count() != mem_count {
                fs.push(finding("count", format!("count after load {}, before dump {}", probe.count(), mem_count)));
            }
        }
    }
    (lookups, fs)
}

async fn batch_task<const L: usize>(shapes: Vec<Shape>) -> Vec<(usize, Vec<Finding>)>
where
    ArrayKey<L>: HKey,
{
    let dir = world::fresh_dir();
    let mut out = Vec::new();
    for s in shapes {
        out.push(check_shape::<ArrayKey<L>>(s, dir.clone()).await);
    }
    world::remove_dir(&dir);
    out
}

fn run_batch(key_len: usize, shapes: Vec<Shape>) -> Result<Vec<(usize, Vec<Finding>)>, String> {
    let mut cfg = CtlConfig::sequential(IoMode::Inplace);
    cfg.auto_clock = None;
    macro_rules! go {
        ($l:literal) => {{
            let exec = ctl::execute(cfg, &[], None, move || batch_task::<$l>(shapes));
            exec.result.map_err(|e| format!("{e}; {:?}", exec.ctl.panics.borrow()))
        }};
    }
    match key_len {
        1 => go!(1),
        2 => go!(2),
        3 => go!(3),
        4 => go!(4),
        5 => go!(5),
        6 => go!(6),
        7 => go!(7),
        8 => go!(8),
        9 => go!(9),
        10 => go!(10),
        11 => go!(11),
        12 => go!(12),
        15 => go!(15),
        16 => go!(16),
        18 => go!(18),
        20 => go!(20),
        22 => go!(22),
        32 => go!(32),
        33 => go!(33),
        35 => go!(35),
        43 => go!(43),
        45 => go!(45),
        48 => go!(48),
        53 => go!(53),
        57 => go!(57),
        59 => go!(59),
        60 => go!(60),
        64 => go!(64),
        65 => go!(65),
        69 => go!(69),
        71 => go!(71),
        77 => go!(77),
        87 => go!(87),
        112 => go!(112),
        128 => go!(128),
        138 => go!(138),
        149 => go!(149),
        159 => go!(159),
        162 => go!(162),
        199 => go!(199),
        207 => go!(207),
        219 => go!(219),
        232 => go!(232),
        255 => go!(255),
        284 => go!(284),
        306 => go!(306),
        332 => go!(332),
        363 => go!(363),
        446 => go!(446),
        455 => go!(455),
        456 => go!(456),
        500 => go!(500),
        502 => go!(502),
        503 => go!(503),
        575 => go!(575),
        576 => go!(576),
        672 => go!(672),
        673 => go!(673),
        808 => go!(808),
        809 => go!(809),
        967 => go!(967),
        969 => go!(969),
        1000 => go!(1000),
        n => Err(format!("unsupported key length {n}")),
    }
}

#[derive(Debug, Default, Clone, serde::Serialize)]
pub struct IndexStats {
    pub shapes: usize,
    pub lookups: usize,
    pub max_keys: usize,
    pub violations: usize,
    pub per_key_len: std::collections::BTreeMap<usize, usize>,
    pub samples: Vec<Shape>,
}

pub fn shapes(thorough: bool) -> Vec<Shape> {
    let mut out = Vec::new();
    // (key length, every key count up to)
    let plan: Vec<(usize, usize)> = if thorough {
        vec![(1000, 700), (500, 700), (255, 900), (128, 700), (64, 700), (33, 600), (16, 600), (8, 600), (4, 600), (2, 600), (1, 127)]
    } else {
        vec![(1000, 400), (255, 600), (64, 400), (33, 200), (8, 300), (4, 300), (1, 127)]
    };
    // the quick tier enumerates runs and key counts as completely as the thorough one, over fewer
    // key lengths and smaller maxima
    let quick = !thorough;
    let thorough = true;
    for (l, max_n) in plan {
        let b = 4096 / (57 + l); // headers per leaf block
        for n in 1..=max_n {
            out.push(Shape { key_len: l, n, dist: Dist::Ones });
            if n % 2 == 1 || thorough {
                out.push(Shape { key_len: l, n, dist: Dist::Twos });
            }
        }
        // runs: every length up to 2B+2 at selected key counts, all flavours
        let ns: Vec<usize> = if thorough { vec![1, 2, 3, b.max(2) - 1, b, b + 1, 2 * b + 1, 3 * b] } else { vec![1, 3, b + 1] };
        let rs: Vec<usize> = if thorough { (2..=2 * b + 2).collect() } else { vec![2, 3, 4, 5, 6, b - 1, b, b + 1, 2 * b, 2 * b + 1, 2 * b + 2].into_iter().filter(|r| *r >= 2).collect() };
        for n in ns {
            for &r in &rs {
                for pos in 0..3u8 {
                    if n == 1 && pos > 0 {
                        continue;
                    }
                    for flavour in 0..4u8 {
                        if !thorough && flavour == 1 {
                            continue;
                        }
                        out.push(Shape { key_len: l, n, dist: Dist::Run { pos, r, flavour } });
                    }
                }
            }
        }
        if l == 1 {
            out.push(Shape { key_len: 1, n: 256, dist: Dist::Ones });
            out.push(Shape { key_len: 1, n: 256, dist: Dist::Twos });
        }
    }
    // inner-node boundaries: for key lengths at which the node-capacity arithmetic has no slack
    // (remainder of the fan-out division within 8 bytes of either end, leaf block filled exactly
    // or all but a few bytes) and the standard lengths: leaf counts around one and two full inner
    // nodes, each with the last leaf full, one short, one over
    for l in FAN_LENGTHS {
        let b = 4096 / (57 + l); // headers per leaf block
        let fan = (4096 - 16) / (l + 8) + 1; // children of an inner node
        let heavy = fan * b > 3000;
        if quick && heavy {
            continue;
        }
        let mut leaves: Vec<usize> = vec![fan - 1, fan, fan + 1, fan + 2, fan + fan / 2 + 1, fan + fan / 2 + 2, 2 * fan, 2 * fan + 1];
        if !heavy || !quick {
            leaves.extend([fan * fan, fan * fan + 1].into_iter().filter(|x| x * b <= 4000));
        }
        leaves.sort();
        leaves.dedup();
        for j in leaves {
            for d in [-1i64, 0, 1] {
                let total = (j as i64 * b as i64 + d).max(1) as usize;
                if l == 1 {
                    // 256 distinct keys at most: 200 keys, one of them carries the rest as versions
                    if total > 200 {
                        out.push(Shape { key_len: 1, n: 100, dist: Dist::Run { pos: 1, r: total - 99, flavour: 0 } });
                    }
                } else if l > 2 || total <= 32_000 {
                    // (two-byte keys: present keys are the odd counters below 65536)
                    out.push(Shape { key_len: l, n: total, dist: Dist::Ones });
                }
            }
        }
    }
    out
}

/// Key lengths of the inner-node boundary family (see `shapes`).
pub const FAN_LENGTHS: [usize; 63] = [
    1, 2, 3, 4, 5, 6, 7, 8, 9, 10, 11, 12, 15, 16, 18, 20, 22, 32, 33, 35, 43, 45, 48, 53, 57, 59, 60, 64, 65, 69, 71, 77, 87, 112, 128, 138, 149, 159, 162, 199, 207, 219, 232, 255, 284, 306, 332, 363,
    446, 455, 456, 500, 502, 503, 575, 576, 672, 673, 808, 809, 967, 969, 1000,
];

pub fn run(thorough: bool, threads: usize) -> (IndexStats, Vec<(Shape, Vec<Finding>)>) {
    let all = shapes(thorough);
    let mut stats = IndexStats::default();
    let mut violations = Vec::new();
    // batches of shapes with the same key length
    let mut batches: Vec<(usize, Vec<usize>)> = Vec::new();
    for (i, s) in all.iter().enumerate() {
        match batches.last_mut() {
            Some((l, v)) if *l == s.key_len && v.len() < 40 => v.push(i),
            _ => batches.push((s.key_len, vec![i])),
        }
    }
    let next = AtomicUsize::new(0);
    let results: Mutex<Vec<(usize, usize, Vec<Finding>)>> = Mutex::new(Vec::new());
    std::thread::scope(|sc| {
        for _ in 0..threads.max(1) {
            sc.spawn(|| loop {
                let bi = next.fetch_add(1, Ordering::Relaxed);
                if bi >= batches.len() {
                    break;
                }
                let (l, idxs) = &batches[bi];
                let shapes: Vec<Shape> = idxs.iter().map(|i| all[*i].clone()).collect();
                match run_batch(*l, shapes) {
                    Ok(v) => {
                        let mut r = results.lock().unwrap();
                        for (i, (lk, fs)) in idxs.iter().zip(v) {
                            r.push((*i, lk, fs));
                        }
                    }
                    Err(e) => results.lock().unwrap().push((idxs[0], 0, vec![finding("panic", e)])),
                }
            });
        }
    });
    let mut results = results.into_inner().unwrap();
    results.sort_by_key(|r| r.0);
    for (i, lk, fs) in results {
        stats.shapes += 1;
        stats.lookups += lk;
        stats.max_keys = stats.max_keys.max(all[i].n);
        *stats.per_key_len.entry(all[i].key_len).or_insert(0) += 1;
        if stats.samples.len() < 4 && i % 501 == 17 {
            stats.samples.push(all[i].clone());
        }
        if !fs.is_empty() {
            stats.violations += 1;
            if violations.len() < 20 {
                violations.push((all[i].clone(), fs));
            }
        }
    }
    (stats, violations)
}
