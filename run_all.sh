#!/bin/bash
# Runs the quick (or given) tier of every claimed check; prints one line per check.
TIER=${1:-quick}
cd /verif
for p in $(python3 -c "import json; print(' '.join(c['property_id'] for c in json.load(open('MANIFEST.json'))['checks']))"); do
  s=$(date +%s.%N)
  out=$(./check $p --tier $TIER 2>&1); rc=$?
  e=$(date +%s.%N)
  printf "%s rc=%d %.1fs %s\n" $p $rc $(echo "$e - $s" | bc) "$(echo "$out" | grep -c '^VIOLATION') violations, $(echo "$out" | grep -c '^KNOWN-FINDING') known"
done
