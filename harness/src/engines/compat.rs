//! C17: the committed corpus written by the pinned release, opened with the current code:
//! every subset of index files removed x eager/lazy init must reproduce the recorded answers;
//! key-size and version mismatches must be rejected, never misread.

use std::path::{Path, PathBuf};
use std::sync::atomic::{AtomicUsize, Ordering};
use std::sync::Mutex;

use pearl::{ArrayKey, Storage};
use serde_json::Value;

#[path = "../../../corpus/gen/src/observe.rs"]
#[allow(dead_code)]
mod observe;

use crate::ctl::{self, CtlConfig, IoMode};
use crate::evidence;
use crate::oracle::{finding, Finding};
use crate::world;

#[derive(Debug, Clone, serde::Serialize)]
pub enum Variant {
    /// bitmask of index files removed (bit i = i-th index file in name order), lazy init?
    Subset { removed: u32, lazy: bool },
    /// opened with another key size
    KeySize(usize),
    /// version field of blob `file` overwritten
    BlobVersion { file: String, version: u32 },
    /// byte 72 (version << 1 | written) of index `file` overwritten
    IndexVersionByte { file: String, value: u8 },
}

#[derive(Debug, Clone, serde::Serialize)]
pub struct CaseSpec {
    pub dir: String,
    pub key_len: usize,
    pub bloom: String,
    pub variant: Variant,
}

fn bloom_of(s: &str) -> observe::Bloom {
    match s {
        "off" => observe::Bloom::Off,
        "scaled" => observe::Bloom::Scaled,
        other => {
            let body = other.trim_start_matches("bits");
            match body.split_once('k') {
                Some((n, k)) => observe::Bloom::BitsK(n.parse().unwrap_or(1024), k.parse().unwrap_or(2)),
                None => observe::Bloom::Bits(body.parse().unwrap_or(1024)),
            }
        }
    }
}

fn copy_dir(from: &Path, to: &Path) {
    std::fs::create_dir_all(to).unwrap();
    for e in std::fs::read_dir(from).unwrap().flatten() {
        if e.path().is_file() {
            std::fs::copy(e.path(), to.join(e.file_name())).unwrap();
        }
    }
}

fn index_files(dir: &Path) -> Vec<String> {
    world::dir_listing(dir).into_iter().map(|x| x.0).filter(|n| n.ends_with(".index")).collect()
}

enum Opened {
    Answers(Value),
    InitErr(String),
    /// nothing of the old data is served (all blobs rejected)
    Count(usize),
}

async fn open_and_observe<const N: usize>(dir: PathBuf, bloom: observe::Bloom, lazy: bool, keys: Vec<u32>, count_only: bool) -> Opened {
    let mut s: Storage<ArrayKey<N>> = observe::builder(&dir, bloom).build().expect("build");
    let r = {
        let _ext = pearl::verif::external_section();
        if lazy {
            s.init_lazy().await
        } else {
            s.init().await
        }
    };
    if let Err(e) = r {
        return Opened::InitErr(format!("{e:#}"));
    }
    ctl::quiesce().await;
    let out = if count_only {
        Opened::Count(s.records_count().await)
    } else {
        Opened::Answers(observe::observe(&s, &keys).await)
    };
    let _ = s.close().await;
    out
}

async fn case_task(case: CaseSpec, src: PathBuf, keys: Vec<u32>) -> Opened {
    let dir = world::fresh_dir();
    copy_dir(&src, &dir);
    let bloom = bloom_of(&case.bloom);
    let mut lazy = false;
    let mut open_len = case.key_len;
    let mut count_only = false;
    match &case.variant {
        Variant::Subset { removed, lazy: l } => {
            lazy = *l;
            for (i, f) in index_files(&dir).iter().enumerate() {
                if removed & (1 << i) != 0 {
                    std::fs::remove_file(dir.join(f)).unwrap();
                }
            }
        }
        Variant::KeySize(n) => {
            open_len = *n;
            count_only = true;
        }
        Variant::BlobVersion { file, version } => {
            let mut b = std::fs::read(dir.join(file)).unwrap();
            b[8..12].copy_from_slice(&version.to_le_bytes());
            std::fs::write(dir.join(file), b).unwrap();
            count_only = true;
        }
        Variant::IndexVersionByte { file, value } => {
            let mut b = std::fs::read(dir.join(file)).unwrap();
            b[72] = *value;
            std::fs::write(dir.join(file), b).unwrap();
        }
    }
    macro_rules! by_len {
        ($($n:literal),*) => {
            match open_len {
                $($n => open_and_observe::<$n>(dir.clone(), bloom, lazy, keys, count_only).await,)*
                n => Opened::InitErr(format!("machinery: key length {n}")),
            }
        };
    }
    let r = by_len!(1, 2, 3, 4, 5, 7, 8, 9, 12, 15, 16, 17, 24, 31, 32, 33, 48, 63, 64, 65, 100, 128, 255, 1000);
    world::remove_dir(&dir);
    r
}

/// `has_active` differs between eager and lazy init; everything the corpus recorded is content.
fn normalise(mut v: Value, lazy: bool) -> Value {
    if lazy {
        // a lazily opened storage has no active blob: the recorded per-blob list ends with the
        // active entry (label -1); lazily the same blob is listed as a closed one with its id
        if let Some(Value::Array(d)) = v.get_mut("records_count_detailed") {
            let n = d.len();
            for (i, e) in d.iter_mut().enumerate() {
                if let Value::Array(p) = e {
                    if p[0] == Value::from(-1) || i + 1 == n {
                        p[0] = Value::from(-1);
                    }
                }
            }
        }
    }
    v
}

#[derive(Debug, Default, Clone, serde::Serialize)]
pub struct CompatStats {
    pub corpus_sha: String,
    pub dirs: usize,
    pub cases: usize,
    pub subset_cases: usize,
    pub mismatch_cases: usize,
    pub keys_compared: usize,
    pub violations: usize,
    pub samples: Vec<CaseSpec>,
}

pub fn run(threads: usize) -> (CompatStats, Vec<(CaseSpec, Vec<Finding>)>) {
    let root = evidence::verif_root().join("corpus/data");
    let manifest: Value = serde_json::from_str(&std::fs::read_to_string(root.join("MANIFEST.json")).expect("corpus manifest")).expect("json");
    let mut stats = CompatStats { corpus_sha: manifest["sha"].as_str().unwrap_or("").to_string(), ..Default::default() };
    let mut cases: Vec<(CaseSpec, PathBuf, Vec<u32>, Value)> = Vec::new();
    let mut all_lens: Vec<usize> = manifest["dirs"].as_object().expect("dirs").values().map(|d| d["info"]["key_len"].as_u64().unwrap() as usize).collect();
    all_lens.sort();
    all_lens.dedup();
    for (name, d) in manifest["dirs"].as_object().expect("dirs") {
        stats.dirs += 1;
        let src = root.join(name);
        let key_len = d["info"]["key_len"].as_u64().unwrap() as usize;
        let bloom = d["bloom"].as_str().unwrap().to_string();
        let keys: Vec<u32> = d["info"]["keys"].as_array().unwrap().iter().map(|k| k.as_u64().unwrap() as u32).collect();
        let answers = d["info"]["answers"].clone();
        let idx = index_files(&src);
        let mk = |v: Variant| CaseSpec { dir: name.clone(), key_len, bloom: bloom.clone(), variant: v };
        for removed in 0..(1u32 << idx.len()) {
            for lazy in [false, true] {
                cases.push((mk(Variant::Subset { removed, lazy }), src.clone(), keys.clone(), answers.clone()));
            }
        }
        for &other in &all_lens {
            if other != key_len {
                cases.push((mk(Variant::KeySize(other)), src.clone(), keys.clone(), Value::Null));
            }
        }
        for f in world::dir_listing(&src).into_iter().map(|x| x.0).filter(|n| n.ends_with(".blob")) {
            for version in [0u32, 2, 3, 255, u32::MAX] {
                cases.push((mk(Variant::BlobVersion { file: f.clone(), version }), src.clone(), keys.clone(), Value::Null));
            }
        }
        if let Some(f) = idx.first() {
            for value in 0..=255u8 {
                cases.push((mk(Variant::IndexVersionByte { file: f.clone(), value }), src.clone(), keys.clone(), answers.clone()));
            }
        }
    }
    stats.cases = cases.len();
    let next = AtomicUsize::new(0);
    let results: Mutex<Vec<(usize, Vec<Finding>)>> = Mutex::new(Vec::new());
    std::thread::scope(|sc| {
        for _ in 0..threads.max(1) {
            sc.spawn(|| loop {
                let i = next.fetch_add(1, Ordering::Relaxed);
                if i >= cases.len() {
                    break;
                }
                let (case, src, keys, answers) = &cases[i];
                let mut cfg = CtlConfig::sequential(IoMode::Inplace);
                cfg.auto_clock = None;
                let (c2, s2, k2) = (case.clone(), src.clone(), keys.clone());
                let exec = ctl::execute(cfg, &[], None, move || case_task(c2, s2, k2));
                let panics = exec.ctl.panics.borrow().clone();
                let mut fs = Vec::new();
                match exec.result {
                    Err(e) => fs.push(finding("panic", format!("{e}; {panics:?}"))),
                    Ok(opened) => match (&case.variant, opened) {
                        (Variant::Subset { .. }, Opened::Answers(v)) | (Variant::IndexVersionByte { .. }, Opened::Answers(v)) => {
                            let lazy = matches!(case.variant, Variant::Subset { lazy: true, .. });
                            let got = normalise(v, lazy);
                            let want = normalise(answers.clone(), lazy);
                            if got != want {
                                // first differing key or field
                                let mut detail = String::new();
                                if let (Some(g), Some(w)) = (got["keys"].as_object(), want["keys"].as_object()) {
                                    for (k, wv) in w {
                                        if g.get(k) != Some(wv) {
                                            detail = format!("key {k}: now {} ; recorded {}", g.get(k).map_or("-".into(), |x| x.to_string()), wv);
                                            break;
                                        }
                                    }
                                }
                                if detail.is_empty() {
                                    for f in ["records_count", "records_count_detailed", "blobs_count", "next_blob_id"] {
                                        if got[f] != want[f] {
                                            detail = format!("{f}: now {}, recorded {}", got[f], want[f]);
                                        }
                                    }
                                }
                                fs.push(finding("answers_differ", detail.chars().take(700).collect::<String>()));
                            }
                        }
                        (Variant::Subset { .. }, Opened::InitErr(e)) | (Variant::IndexVersionByte { .. }, Opened::InitErr(e)) => {
                            fs.push(finding("init_failed", format!("init on the corpus directory failed: {e}")))
                        }
                        (Variant::KeySize(n), Opened::Count(c)) if c > 0 => {
                            fs.push(finding("misread", format!("opened with key size {n}: {c} records are served from blobs written with key size {}", case.key_len)))
                        }
                        (Variant::BlobVersion { file, version }, Opened::Count(c)) => {
                            // the other blobs stay readable; the changed one must not contribute
                            let total = answers_count(&cases[i].1, &manifest, &case.dir);
                            let own = blob_records(&cases[i].1.join(file), case.key_len);
                            if c + own > total {
                                fs.push(finding("misread_version", format!("{file} with version {version}: {c} records served, at most {} expected", total - own)));
                            }
                        }
                        _ => {}
                    },
                }
                results.lock().unwrap().push((i, fs));
            });
        }
    });
    let mut results = results.into_inner().unwrap();
    results.sort_by_key(|r| r.0);
    let mut violations = Vec::new();
    for (i, fs) in results {
        let (case, _, keys, _) = &cases[i];
        match case.variant {
            Variant::Subset { .. } => {
                stats.subset_cases += 1;
                stats.keys_compared += keys.len();
            }
            Variant::IndexVersionByte { .. } => stats.keys_compared += keys.len(),
            _ => stats.mismatch_cases += 1,
        }
        if stats.samples.len() < 4 && i % 173 == 11 {
            stats.samples.push(case.clone());
        }
        if !fs.is_empty() {
            stats.violations += 1;
            if violations.len() < 20 {
                violations.push((case.clone(), fs));
            }
        }
    }
    (stats, violations)
}

fn answers_count(_src: &Path, manifest: &Value, dir: &str) -> usize {
    manifest["dirs"][dir]["info"]["answers"]["records_count"].as_u64().unwrap_or(0) as usize
}

fn blob_records(path: &Path, key_len: usize) -> usize {
    let b = std::fs::read(path).unwrap_or_default();
    crate::blobfile::parse(&b, key_len).records.len()
}
