//! seq engine: breadth-first search over operation sequences of a small alphabet. States are
//! de-duplicated by the canonical state of the reference model; every transition (state, op) is
//! executed on a fresh real `Storage` (history replayed, then the op) under the zero-preemption
//! default schedule, and everything the model defines is compared after it.

use std::collections::{BTreeSet, HashMap};
use std::hash::{Hash, Hasher};
use std::sync::atomic::{AtomicUsize, Ordering};
use std::sync::Mutex;

use pearl::{ArrayKey, Key};

use crate::ctl::{self, CtlConfig, EndState, IoMode};
use crate::model::{KeyId, MetaId, RefStore};
use crate::oracle::{self, finding, Expect, Finding};
use crate::tap;
use crate::world::{self, HKey, Obs, Op, Outcome, WCfg, World};

#[derive(Debug, Clone, Default)]
pub struct Checks {
    pub outcome: bool,
    pub latest: bool,
    pub history: bool,
    pub accounting: bool,
    pub filters: bool,
    /// maintenance ops must leave every query answer unchanged (C04) and succeed per precondition
    pub transparent: bool,
    /// append-only + snapshot monitors, queries perform no mutating I/O (C07)
    pub no_harm: bool,
    /// the worker must stay alive, no task may panic (C13)
    pub alive: bool,
    /// sync discipline clauses over the log (C12)
    pub sync: bool,
    /// blob files on disk and the active record count follow the model's rotations; closed,
    /// non-empty, dumped blobs have an index file (C13)
    pub rotation: bool,
}

#[derive(Debug, Clone)]
pub struct SeqSpec {
    pub name: String,
    pub alphabet: Vec<Op>,
    pub depth: usize,
    pub wcfg: WCfg,
    pub key_len: usize,
    pub io_mode: IoMode,
    pub keys: Vec<KeyId>,
    pub metas: Vec<MetaId>,
    pub checks: Checks,
    /// start with `init_lazy`
    pub lazy: bool,
    /// operations appended to every explored history before the final observation (C13 epilogue)
    pub epilogue: Vec<Op>,
    /// cap on explored transitions (reported when hit)
    pub max_transitions: usize,
    /// operations executed before every explored history (the search starts from the state they
    /// reach; not counted in the depth)
    pub prefix: Vec<Op>,
}

impl SeqSpec {
    pub fn new(name: &str, alphabet: Vec<Op>, depth: usize) -> Self {
        Self {
            name: name.to_string(),
            alphabet,
            depth,
            wcfg: WCfg::default(),
            key_len: 4,
            io_mode: IoMode::Inplace,
            keys: vec![0, 1, world::ABSENT_KEY],
            metas: vec![0],
            checks: Checks::default(),
            lazy: false,
            epilogue: vec![],
            max_transitions: usize::MAX,
            prefix: Vec::new(),
        }
    }
}

#[derive(Debug, Clone, serde::Serialize)]
pub struct Violation {
    pub spec: String,
    pub ops: Vec<Op>,
    pub history: Vec<String>,
    pub findings: Vec<Finding>,
}

#[derive(Debug, Default, Clone, serde::Serialize)]
pub struct SeqStats {
    pub spec: String,
    pub states: usize,
    pub transitions: usize,
    pub depth_completed: usize,
    pub distinct_observations: usize,
    pub abstraction_divergences: usize,
    pub cap_hit: bool,
    pub violations: usize,
    pub pruned_states: usize,
    pub samples: Vec<Vec<String>>,
}

/// Everything one execution of a history yields.
pub struct HistoryRun {
    pub outcome: Outcome,
    pub obs_before: Option<Obs>,
    pub obs_after: Option<Obs>,
    pub monitor_findings: Vec<Finding>,
    pub end: EndState,
    pub panics: Vec<String>,
    pub worker_alive: bool,
    pub listing: Vec<(String, u64)>,
    pub dir: std::path::PathBuf,
}

struct MainOut {
    listing: Vec<(String, u64)>,
    outcome: Outcome,
    obs_before: Option<Obs>,
    obs_after: Option<Obs>,
    findings: Vec<Finding>,
    dir: std::path::PathBuf,
    worker_alive: bool,
}

pub fn is_query_safe_maintenance(op: Op) -> bool {
    !matches!(op, Op::Write { .. } | Op::Delete { .. })
}

async fn main_task<K: HKey>(spec: SeqSpec, history: Vec<Op>) -> MainOut {
    let dir = world::fresh_dir();
    let mut findings = Vec::new();
    let mut w: World<K> = match World::open(dir.clone(), spec.wcfg.clone(), spec.lazy).await {
        Ok(w) => w,
        Err(e) => {
            return MainOut {
                listing: vec![],
                outcome: Outcome::Done,
                obs_before: None,
                obs_after: None,
                findings: vec![finding("init", format!("initial init failed: {e:#}"))],
                dir,
                worker_alive: false,
            }
        }
    };
    ctl::quiesce().await;
    let n = history.len();
    let mut outcome = Outcome::Done;
    let mut obs_before = None;
    let mut snap_before = None;
    for (i, op) in history.iter().enumerate() {
        let last = i + 1 == n;
        if last {
            if spec.checks.transparent || spec.checks.no_harm || spec.checks.filters {
                obs_before = Some(w.observe(&spec.keys, &spec.metas).await);
            }
            if spec.checks.no_harm {
                snap_before = Some(tap::snapshot_blobs(&dir));
                w.snapshot_restarts = true;
            }
        }
        if spec.checks.sync {
            let a = active_id(&w).await;
            ctl::with_ctl(|c| c.log.borrow_mut().mark(format!("begin {} active={}", op_name(*op), a.map_or("none".to_string(), |x| x.to_string()))));
        }
        let out = apply_op(&mut w, *op).await;
        if spec.checks.sync {
            let ok = !matches!(out, Outcome::Res(crate::model::Res::Err, _) | Outcome::Count(Err(_)));
            if matches!(op, Op::CloseBg) {
                ctl::quiesce().await;
            }
            ctl::with_ctl(|c| c.log.borrow_mut().mark(format!("end {} {}", op_name(*op), if ok { "ok" } else { "err" })));
        }
        if let Some(s) = w.restart_snapshot.take() {
            // the harness itself damaged a blob: judge pearl from the damaged state on
            snap_before = Some(s);
        }
        if w.storage.is_none() {
            findings.push(finding("restart", format!("{} failed: {:?}", op.short(), out)));
            return MainOut {
                listing: vec![],
                outcome: out,
                obs_before,
                obs_after: None,
                findings,
                dir,
                worker_alive: false,
            };
        }
        ctl::quiesce().await;
        if spec.checks.sync {
            let a = active_id(&w).await;
            ctl::with_ctl(|c| c.log.borrow_mut().mark(format!("quiescent active={}", a.map_or("none".to_string(), |x| x.to_string()))));
        }
        if last {
            outcome = out;
        }
    }
    for op in spec.epilogue.iter() {
        let _ = apply_op(&mut w, *op).await;
        if w.storage.is_none() {
            findings.push(finding("restart", format!("epilogue {} failed", op.short())));
            return MainOut {
                listing: vec![],
                outcome,
                obs_before,
                obs_after: None,
                findings,
                dir,
                worker_alive: false,
            };
        }
        ctl::quiesce().await;
    }
    let mark_from = crate::ctl::with_ctl(|c| c.log.borrow().len());
    let obs_after = w.observe(&spec.keys, &spec.metas).await;
    if spec.checks.no_harm {
        let mark_to = crate::ctl::with_ctl(|c| c.log.borrow().len());
        let muts = crate::ctl::with_ctl(|c| c.log.borrow().mutating_between(mark_from, mark_to));
        if !muts.is_empty() {
            findings.push(finding(
                "query_io",
                format!("queries performed mutating file operations: {muts:?}"),
            ));
        }
        if let Some(before) = snap_before {
            let after = tap::snapshot_blobs(&dir);
            for v in tap::snapshot_violations(&before, &after) {
                findings.push(finding("snapshot", v));
            }
        }
    }
    let worker_alive = crate::ctl::with_ctl(|c| c.task_alive("worker"));
    let listing = world::dir_listing(&dir);
    // close: must return (a hang shows as a deadlock of the run)
    if let Err(e) = w.close().await {
        findings.push(finding("close", format!("close failed: {e:#}")));
    }
    MainOut {
        listing,
        outcome,
        obs_before,
        obs_after: Some(obs_after),
        findings,
        dir,
        worker_alive,
    }
}

fn op_name(op: Op) -> String {
    format!("{op:?}").split(|c: char| !c.is_alphanumeric()).next().unwrap_or("").to_string()
}

async fn active_id<K: HKey>(w: &World<K>) -> Option<usize> {
    let s = w.storage.as_ref()?;
    if !s.has_active_blob().await {
        return None;
    }
    s.records_count_detailed().await.last().map(|x| x.0)
}

async fn apply_op<K: HKey>(w: &mut World<K>, op: Op) -> Outcome {
    w.apply(op).await
}

pub fn run_history<K: HKey>(spec: &SeqSpec, history: &[Op]) -> HistoryRun {
    let mut cfg = CtlConfig::sequential(spec.io_mode);
    cfg.auto_clock = None;
    let s = spec.clone();
    let h = history.to_vec();
    let exec = ctl::execute(cfg, &[], None, move || main_task::<K>(s, h));
    let mut monitor_findings = Vec::new();
    let panics = exec.ctl.panics.borrow().clone();
    if spec.checks.no_harm {
        let mut ever = BTreeSet::new();
        let log = exec.ctl.log.borrow();
        for v in tap::append_only_violations(&log, 0, &mut ever) {
            monitor_findings.push(finding("append_only", v));
        }
    }
    if spec.checks.sync {
        let log = exec.ctl.log.borrow();
        monitor_findings.extend(crate::engines::syncmon::check_log(&log, spec.wcfg.max_dirty));
    }
    let (outcome, obs_before, obs_after, dir, worker_alive, listing) = match exec.result {
        Ok(m) => {
            monitor_findings.extend(m.findings);
            (m.outcome, m.obs_before, m.obs_after, m.dir, m.worker_alive, m.listing)
        }
        Err(e) => {
            monitor_findings.push(finding("panic", format!("{e}; panics: {panics:?}")));
            (Outcome::Done, None, None, std::path::PathBuf::new(), false, vec![])
        }
    };
    HistoryRun {
        outcome,
        obs_before,
        obs_after,
        monitor_findings,
        end: exec.trace.end,
        panics,
        worker_alive,
        listing,
        dir,
    }
}

pub fn run_history_dyn(spec: &SeqSpec, history: &[Op]) -> HistoryRun {
    match spec.key_len {
        1 => run_history::<ArrayKey<1>>(spec, history),
        4 => run_history::<ArrayKey<4>>(spec, history),
        8 => run_history::<ArrayKey<8>>(spec, history),
        33 => run_history::<ArrayKey<33>>(spec, history),
        1000 => run_history::<ArrayKey<1000>>(spec, history),
        n => panic!("unsupported key length {n}"),
    }
}

/// Replays `history` on the model; returns the model and the expectation for the last op.
pub fn model_history(spec: &SeqSpec, history: &[Op]) -> (RefStore, RefStore, Expect) {
    // (a lazy start on an empty directory still creates the first blob)
    let mut m = RefStore::fresh(spec.wcfg.allow_duplicates);
    m.max_data = spec.wcfg.max_data_in_blob;
    m.max_size = spec.wcfg.max_blob_size;
    let mut before = m.clone();
    let mut exp = Expect::Done;
    for (i, op) in history.iter().enumerate() {
        before = m.clone();
        let tag = match op {
            Op::Write { k, ts, size, .. } => {
                let bytes = world::value_bytes(&format!("w{}k{}t{}", i, k, ts), *size as usize);
                world::value_tag(&bytes)
            }
            _ => String::new(),
        };
        exp = oracle::apply_model(&mut m, *op, &tag, spec.key_len);
    }
    (before, m, exp)
}

fn hash_of<T: Hash>(t: &T) -> u64 {
    let mut h = std::collections::hash_map::DefaultHasher::new();
    t.hash(&mut h);
    h.finish()
}

/// Compares one executed transition with the model.
pub fn judge(spec: &SeqSpec, history: &[Op], run: &HistoryRun) -> Vec<Finding> {
    let mut full: Vec<Op> = history.to_vec();
    let (m_before, mut m_after, exp) = model_history(spec, history);
    // epilogue on the model
    for (j, op) in spec.epilogue.iter().enumerate() {
        let tag = match op {
            Op::Write { k, ts, size, .. } => {
                let bytes = world::value_bytes(&format!("w{}k{}t{}", history.len() + j, k, ts), *size as usize);
                world::value_tag(&bytes)
            }
            _ => String::new(),
        };
        oracle::apply_model(&mut m_after, *op, &tag, spec.key_len);
        full.push(*op);
    }
    let mut out = run.monitor_findings.clone();
    match &run.end {
        EndState::Finished => {}
        EndState::Deadlock(t) => out.push(finding("deadlock", format!("no task can run: {t:?}"))),
        EndState::StepCap => out.push(finding("machinery", "step cap hit".to_string())),
        EndState::Divergence(s) => out.push(finding("machinery", s.clone())),
    }
    if !run.panics.is_empty() && (spec.checks.alive || spec.checks.outcome) {
        out.push(finding("panic", format!("a task panicked: {:?}", run.panics)));
    }
    if spec.checks.alive && !run.worker_alive && run.obs_after.is_some() {
        out.push(finding("worker_dead", "the background worker is no longer running".to_string()));
    }
    if let (Some(last), true) = (history.last(), spec.checks.outcome) {
        out.extend(oracle::compare_outcome(*last, &run.outcome, &exp));
    }
    if let Some(obs) = &run.obs_after {
        if spec.checks.latest {
            out.extend(oracle::compare_latest(&m_after, obs));
        }
        if spec.checks.history {
            out.extend(oracle::compare_history(&m_after, obs));
        }
        if spec.checks.filters {
            out.extend(oracle::compare_filters(&m_after, obs));
        }
        if spec.checks.accounting {
            out.extend(oracle::compare_accounting_obs(&m_after, obs, &run.listing));
        }
        if spec.checks.rotation {
            let blob_files = run.listing.iter().filter(|(n, _)| n.ends_with(".blob")).count();
            if blob_files != m_after.blobs_count() || obs.in_active != m_after.records_count_in_active() {
                out.push(finding(
                    "rotation",
                    format!(
                        "{} blob files / {:?} records in the active blob, model: {} blobs / {:?} (listing {:?})",
                        blob_files,
                        obs.in_active,
                        m_after.blobs_count(),
                        m_after.records_count_in_active(),
                        run.listing
                    ),
                ));
            }
            for b in m_after.closed.iter().flatten() {
                if b.index_on_disk && !run.listing.iter().any(|(n, _)| *n == format!("t.{}.index", b.id)) {
                    out.push(finding(
                        "index_dump",
                        format!("closed blob {} has no index file after the requested dump (listing {:?})", b.id, run.listing),
                    ));
                }
            }
        }
        if spec.checks.filters {
            // off-loading a filter buffer must not change any filter answer
            if let (Some(before), Some(Op::Offload { level })) = (&run.obs_before, history.last()) {
                for (k, b) in &before.keys {
                    if let Some(a) = obs.keys.get(k) {
                        if a.check_filters != b.check_filters || a.check_filter_maybe != b.check_filter_maybe {
                            out.push(finding(
                                "offload_changes_answer",
                                format!(
                                    "Offload({level}) changed the filter answers for k{k}: check_filters {:?} -> {:?}, check_filter maybe {} -> {}",
                                    b.check_filters, a.check_filters, b.check_filter_maybe, a.check_filter_maybe
                                ),
                            ));
                        }
                    }
                }
            }
        }
        if spec.checks.transparent {
            if let (Some(before), Some(last)) = (&run.obs_before, history.last()) {
                if is_query_safe_maintenance(*last) && spec.epilogue.is_empty() {
                    let (a, b) = (oracle::query_part(before), oracle::query_part(obs));
                    if a != b {
                        for (k, va) in &a {
                            if b.get(k) != Some(va) {
                                out.push(finding(
                                    "answers_changed",
                                    format!(
                                        "{} changed the answers for k{k}: before {:?}, after {:?}",
                                        last.short(),
                                        va,
                                        b.get(k)
                                    ),
                                ));
                            }
                        }
                    }
                }
            }
        }
    } else if run.monitor_findings.is_empty() {
        out.push(finding("machinery", "no final observation".to_string()));
    }
    let _ = m_before;
    out
}

/// Hook for known findings: returns true if `f` on this transition is explained by an open
/// known finding (then it is reported as KNOWN-FINDING, the state is still expanded).
pub type KnownFn = dyn Fn(&SeqSpec, &[Op], &Finding) -> Option<String> + Sync;

pub struct SeqResult {
    pub stats: SeqStats,
    pub violations: Vec<Violation>,
    pub known: Vec<(String, Vec<String>)>,
}

pub fn bfs(spec: &SeqSpec, threads: usize, known: &KnownFn) -> SeqResult {
    let mut stats = SeqStats {
        spec: spec.name.clone(),
        ..Default::default()
    };
    let mut violations: Vec<Violation> = Vec::new();
    let mut known_hits: Vec<(String, Vec<String>)> = Vec::new();
    let (_, m0, _) = model_history(spec, &spec.prefix);
    let mut seen: HashMap<u64, u64> = HashMap::new(); // (model hash, impl digest) -> impl digest
    let mut seen_models: HashMap<u64, u64> = HashMap::new();
    seen.insert(hash_of(&m0), 0);
    let mut frontier: Vec<Vec<Op>> = vec![spec.prefix.clone()];
    let mut distinct_obs: BTreeSet<u64> = BTreeSet::new();
    stats.states = 1;
    for depth in 1..=spec.depth {
        // work items: (history index, op index)
        let items: Vec<(usize, usize)> = (0..frontier.len())
            .flat_map(|h| (0..spec.alphabet.len()).map(move |o| (h, o)))
            .collect();
        let budget = spec.max_transitions.saturating_sub(stats.transitions);
        let capped = items.len() > budget;
        let items = &items[..items.len().min(budget)];
        let next = AtomicUsize::new(0);
        let results: Mutex<Vec<(usize, Vec<Op>, Vec<Finding>, u64, u64)>> = Mutex::new(Vec::new());
        std::thread::scope(|sc| {
            for _ in 0..threads.max(1) {
                sc.spawn(|| loop {
                    let i = next.fetch_add(1, Ordering::Relaxed);
                    if i >= items.len() {
                        break;
                    }
                    let (h, o) = items[i];
                    let mut hist = frontier[h].clone();
                    hist.push(spec.alphabet[o]);
                    let run = run_history_dyn(spec, &hist);
                    let findings = judge(spec, &hist, &run);
                    let obs_digest = hash_of(&(&run.obs_after, &run.listing));
                    let q_digest = hash_of(&run.obs_after.as_ref().map(|o| oracle::query_part(o)));
                    world::remove_dir(&run.dir);
                    results.lock().unwrap().push((i, hist, findings, obs_digest, q_digest));
                });
            }
        });
        let mut results = results.into_inner().unwrap();
        results.sort_by_key(|r| r.0);
        stats.transitions += results.len();
        let mut next_frontier = Vec::new();
        for (_, hist, findings, obs_digest, q_digest) in results {
            distinct_obs.insert(q_digest);
            let mut real: Vec<Finding> = Vec::new();
            for f in findings {
                match known(spec, &hist, &f) {
                    Some(id) => {
                        if !known_hits.iter().any(|(k, _)| *k == id) {
                            known_hits.push((id, hist.iter().map(|o| o.short()).collect()));
                        }
                    }
                    None => real.push(f),
                }
            }
            if !real.is_empty() {
                stats.violations += 1;
                stats.pruned_states += 1;
                if violations.len() < 20 {
                    violations.push(Violation {
                        spec: spec.name.clone(),
                        ops: hist.clone(),
                        history: hist.iter().map(|o| o.short()).collect(),
                        findings: real,
                    });
                }
                continue; // do not expand a state where model and implementation disagree
            }
            let (_, m, _) = model_history(spec, &hist);
            // states are merged only if the model state AND the implementation's observable state
            // (answers + directory listing) agree; a history that reaches a known model state with
            // a different implementation state is counted and expanded on its own
            let model_key = hash_of(&m);
            if seen_models.get(&model_key).map_or(false, |d| *d != obs_digest) {
                stats.abstraction_divergences += 1;
            }
            seen_models.entry(model_key).or_insert(obs_digest);
            let key = hash_of(&(model_key, obs_digest));
            match seen.get(&key) {
                Some(_) => {}
                None => {
                    seen.insert(key, obs_digest);
                    stats.states += 1;
                    if stats.samples.len() < 3 && hist.len() == spec.prefix.len() + spec.depth.min(3) {
                        stats.samples.push(hist.iter().map(|o| o.short()).collect());
                    }
                    next_frontier.push(hist);
                }
            }
        }
        if capped {
            stats.cap_hit = true;
            break;
        }
        stats.depth_completed = depth;
        frontier = next_frontier;
        if frontier.is_empty() {
            stats.depth_completed = spec.depth;
            break;
        }
    }
    stats.distinct_observations = distinct_obs.len();
    SeqResult {
        stats,
        violations,
        known: known_hits,
    }
}
