//! sched engine: preemption-bounded exhaustive exploration of the interleavings of 2-3 client
//! tasks with pearl's worker, dump and fsync tasks and (background mode) its detached I/O jobs,
//! on the real storage. Optional cancellation of one client operation after k polls (C14).

use std::collections::{BTreeMap, BTreeSet};
use std::future::Future;
use std::hash::{Hash, Hasher};
use std::pin::Pin;
use std::sync::{Arc, Mutex};
use std::task::{Context, Poll};

use bytes::Bytes;
use pearl::{ArrayKey, BlobRecordTimestamp, ReadResult, Storage};

use crate::blobfile;
use crate::ctl::{self, CtlConfig, EndState, IoMode, RunTrace};
use crate::model::{KeyId, ListEntry, MetaId, RefStore, RR};
use crate::oracle::{self, finding, Finding};
use crate::world::{self, make_key, meta_of, value_bytes, value_tag, HKey, Op, Outcome, WCfg, World};

#[derive(Debug, Clone, PartialEq, Eq, Hash, serde::Serialize)]
pub enum COp {
    W { k: KeyId, ts: u64, size: u32, meta: Option<MetaId> },
    /// delete with only_if_presented = false
    D { k: KeyId, ts: u64 },
    R(KeyId),
    C(KeyId),
    RA(KeyId),
    /// maintenance / lifecycle call
    M(Op),
}

impl COp {
    pub fn w(k: KeyId, ts: u64) -> COp {
        COp::W { k, ts, size: 24, meta: None }
    }
    pub fn short(&self) -> String {
        match self {
            COp::W { k, ts, size, .. } => {
                if *size == 24 {
                    format!("W(k{k},{ts})")
                } else {
                    format!("W(k{k},{ts},{size}B)")
                }
            }
            COp::D { k, ts } => format!("D(k{k},{ts})"),
            COp::R(k) => format!("R(k{k})"),
            COp::C(k) => format!("C(k{k})"),
            COp::RA(k) => format!("RA(k{k})"),
            COp::M(op) => op.short(),
        }
    }
    fn key(&self) -> Option<KeyId> {
        match self {
            COp::W { k, .. } | COp::D { k, .. } | COp::R(k) | COp::C(k) | COp::RA(k) => Some(*k),
            COp::M(_) => None,
        }
    }
}

#[derive(Debug, Clone, PartialEq, Eq, Hash, serde::Serialize)]
pub enum CRes {
    Ok,
    Err(String),
    Count(u64),
    Read(RR),
    List(Result<Vec<ListEntry>, String>),
    Cancelled,
    Done,
}

#[derive(Debug, Clone, PartialEq, Eq, Hash, serde::Serialize)]
pub struct Event {
    pub client: usize,
    pub idx: usize,
    pub op: COp,
    pub inv: u64,
    pub resp: u64,
    pub res: CRes,
    pub label: String,
}

#[derive(Debug, Clone, Copy, PartialEq, Eq, Hash, serde::Serialize)]
pub struct Cancel {
    pub client: usize,
    pub op: usize,
    /// drop the future when its k-th poll returns Pending
    pub k: usize,
}

#[derive(Debug, Clone, serde::Serialize)]
pub struct SchedSpec {
    pub name: String,
    pub wcfg: WCfg,
    #[serde(skip)]
    pub io_mode: IoMode,
    pub io: String,
    pub prefix: Vec<Op>,
    pub clients: Vec<Vec<COp>>,
    pub cancel: Option<Cancel>,
    /// executed by the main task after all clients returned
    pub followup: Vec<COp>,
    pub restart_at_end: bool,
    pub bound: usize,
    pub max_execs: usize,
    pub channel_capacity: Option<usize>,
    pub clock_choices: u32,
    pub keys: Vec<KeyId>,
    /// scheduling points at lock acquisitions (off: only I/O, send and job boundaries)
    pub lock_points: bool,
    pub read_points: bool,
    /// evaluate the C12 clauses over the I/O log (value: the dirty-byte limit in force)
    pub sync_check: bool,
    /// C13: at final quiescence the worker is alive and the active blob is below its limit
    pub liveness_check: bool,
    /// background mode: separate the offset reservation of a write closure from its pwrite
    pub split_write_jobs: bool,
    /// one directed run (no exploration): every client is brought to its channel send first
    pub gather_at_send: bool,
    /// the session is closed right after the last operation, while requests may still be queued
    /// for the worker (the close is part of the explored schedule); the observations are then taken
    /// from a re-opened storage
    pub early_close: bool,
}

impl SchedSpec {
    pub fn new(name: &str, io_mode: IoMode, prefix: Vec<Op>, clients: Vec<Vec<COp>>) -> Self {
        Self {
            name: name.to_string(),
            wcfg: WCfg::default(),
            io_mode,
            io: format!("{io_mode:?}"),
            prefix,
            clients,
            cancel: None,
            followup: vec![],
            restart_at_end: true,
            bound: 2,
            max_execs: 200_000,
            channel_capacity: None,
            clock_choices: 0,
            keys: vec![0, 1],
            lock_points: true,
            read_points: true,
            sync_check: false,
            liveness_check: false,
            split_write_jobs: io_mode == IoMode::Background,
            gather_at_send: false,
            early_close: false,
        }
    }
}

#[derive(Debug, Clone, PartialEq, Eq, Hash, serde::Serialize)]
pub struct KeyFinal {
    pub read: RR,
    pub list: Result<Vec<ListEntry>, String>,
}

#[derive(Debug, Clone, Default)]
pub struct SchedOut {
    pub events: Vec<Event>,
    pub final_obs: BTreeMap<KeyId, KeyFinal>,
    pub restart_obs: Option<BTreeMap<KeyId, KeyFinal>>,
    /// put records found on disk after the run: (key, ts, value tag, deleted)
    pub disk_records: Vec<(KeyId, u64, String, bool)>,
    pub findings: Vec<Finding>,
    pub polls_of_victim: usize,
    pub victim_completed: bool,
    pub in_active: Option<usize>,
    /// record counts of the closed blobs at final quiescence (before the restart)
    pub closed_counts: Vec<usize>,
    /// ids of non-empty closed blobs without an index file at final quiescence
    pub closed_without_index: Vec<usize>,
    pub worker_alive: bool,
}

struct Limited<F> {
    fut: Pin<Box<F>>,
    remaining: usize,
    polls: usize,
}

impl<F: Future> Future for Limited<F> {
    type Output = (Option<F::Output>, usize);
    fn poll(mut self: Pin<&mut Self>, cx: &mut Context<'_>) -> Poll<Self::Output> {
        self.polls += 1;
        match self.fut.as_mut().poll(cx) {
            Poll::Ready(v) => Poll::Ready((Some(v), self.polls)),
            Poll::Pending => {
                self.remaining = self.remaining.saturating_sub(1);
                if self.remaining == 0 {
                    // cancelled: the caller drops the future right away, within this poll
                    ctl::with_ctl(|c| c.clear_pending_point());
                    Poll::Ready((None, self.polls))
                } else {
                    Poll::Pending
                }
            }
        }
    }
}

fn rr_of(r: anyhow::Result<ReadResult<Bytes>>) -> RR {
    match r {
        Ok(ReadResult::Found(b)) => RR::Found { ts: 0, val: value_tag(&b) },
        Ok(ReadResult::Deleted(ts)) => RR::Deleted(ts.into()),
        Ok(ReadResult::NotFound) => RR::NotFound,
        Err(e) => RR::Err(format!("{e:#}")),
    }
}

async fn list_of<K: HKey>(s: &Storage<K>, k: KeyId) -> Result<Vec<ListEntry>, String> {
    let key: K = make_key(k);
    let entries = s
        .read_all_with_deletion_marker(&key)
        .await
        .map_err(|e| format!("{e:#}"))?;
    let mut out = Vec::new();
    for e in entries {
        let ts: u64 = e.timestamp().into();
        let del = e.is_deleted();
        let rec = e.load().await.map_err(|e| format!("load: {e:#}"))?;
        let meta = world::meta_id(rec.meta());
        let data = rec.into_data();
        out.push(ListEntry {
            ts,
            del,
            meta,
            val: if del && data.is_empty() { String::new() } else { value_tag(&data) },
        });
    }
    Ok(out)
}

async fn exec_cop<K: HKey>(s: Arc<Storage<K>>, op: COp, label: String) -> CRes {
    match op {
        COp::W { k, ts, size, meta } => {
            let key: K = make_key(k);
            let val = Bytes::from(value_bytes(&label, size as usize));
            let ts = BlobRecordTimestamp::new(ts);
            let r = match meta {
                None => s.write(&key, val, ts).await,
                Some(m) => s.write_with(&key, val, ts, meta_of(m)).await,
            };
            match r {
                Ok(()) => CRes::Ok,
                Err(e) => CRes::Err(format!("{e:#}")),
            }
        }
        COp::D { k, ts } => {
            let key: K = make_key(k);
            match s.delete(&key, BlobRecordTimestamp::new(ts), false).await {
                Ok(n) => CRes::Count(n),
                Err(e) => CRes::Err(format!("{e:#}")),
            }
        }
        COp::R(k) => {
            let key: K = make_key(k);
            CRes::Read(rr_of(s.read(&key).await))
        }
        COp::C(k) => {
            let key: K = make_key(k);
            CRes::Read(match s.contains(&key).await {
                Ok(ReadResult::Found(ts)) => RR::Found { ts: ts.into(), val: String::new() },
                Ok(ReadResult::Deleted(ts)) => RR::Deleted(ts.into()),
                Ok(ReadResult::NotFound) => RR::NotFound,
                Err(e) => RR::Err(format!("{e:#}")),
            })
        }
        COp::RA(k) => CRes::List(list_of(&*s, k).await),
        COp::M(op) => {
            let r: anyhow::Result<()> = match op {
                Op::Rot => {
                    s.force_update_active_blob(|_| true).await;
                    Ok(())
                }
                Op::ForceNever => {
                    s.force_update_active_blob(|_| false).await;
                    Ok(())
                }
                Op::TryClose => s.try_close_active_blob().await,
                Op::TryCreate => s.try_create_active_blob().await,
                Op::TryRestore => s.try_restore_active_blob().await,
                Op::CloseBg => {
                    s.close_active_blob_in_background().await;
                    Ok(())
                }
                Op::CreateBg => {
                    s.create_active_blob_in_background().await;
                    Ok(())
                }
                Op::RestoreBg => {
                    s.restore_active_blob_in_background().await;
                    Ok(())
                }
                Op::FreeExcess => {
                    s.free_excess_resources().await;
                    Ok(())
                }
                Op::Fsync => s.fsyncdata().await.map_err(|e| e.into()),
                other => Err(anyhow::anyhow!("unsupported in sched: {other:?}")),
            };
            match r {
                Ok(()) => CRes::Done,
                // lifecycle calls may legitimately fail on their precondition
                Err(e) => CRes::Err(format!("{e:#}")),
            }
        }
    }
}

async fn final_obs<K: HKey>(s: &Storage<K>, keys: &[KeyId]) -> BTreeMap<KeyId, KeyFinal> {
    let mut m = BTreeMap::new();
    for k in keys {
        let key: K = make_key(*k);
        m.insert(
            *k,
            KeyFinal {
                read: rr_of(s.read(&key).await),
                list: list_of(s, *k).await,
            },
        );
    }
    m
}

async fn main_task<K: HKey>(spec: SchedSpec) -> SchedOut {
    let mut out = SchedOut::default();
    ctl::with_ctl(|c| c.set_exploring(false));
    let dir = world::fresh_dir();
    let mut w: World<K> = match World::open(dir.clone(), spec.wcfg.clone(), false).await {
        Ok(w) => w,
        Err(e) => {
            out.findings.push(finding("init", format!("{e:#}")));
            return out;
        }
    };
    ctl::quiesce().await;
    for op in &spec.prefix {
        let _ = w.apply(*op).await;
        if w.storage.is_none() {
            out.findings.push(finding("prefix", format!("{} failed", op.short())));
            return out;
        }
        ctl::quiesce().await;
    }
    let storage = Arc::new(w.storage.take().unwrap());
    let events: Arc<Mutex<Vec<Event>>> = Arc::new(Mutex::new(Vec::new()));
    let victim_info: Arc<Mutex<(usize, bool)>> = Arc::new(Mutex::new((0, true)));
    ctl::with_ctl(|c| c.set_exploring(true));
    let mut handles = Vec::new();
    for (ci, ops) in spec.clients.iter().enumerate() {
        let (s, ops, events, cancel, vi) = (storage.clone(), ops.clone(), events.clone(), spec.cancel, victim_info.clone());
        let name: &'static str = match ci {
            0 => "client0",
            1 => "client1",
            2 => "client2",
            _ => "clientN",
        };
        handles.push(pearl::verif::spawn(name, async move {
            for (oi, op) in ops.into_iter().enumerate() {
                let label = format!("c{ci}o{oi}");
                let inv = ctl::with_ctl(|c| c.stamp());
                let victim = matches!(cancel, Some(c) if c.client == ci && c.op == oi);
                let res = if victim {
                    let k = cancel.unwrap().k;
                    let lim = Limited {
                        fut: Box::pin(exec_cop(s.clone(), op.clone(), label.clone())),
                        remaining: k,
                        polls: 0,
                    };
                    let (r, polls) = lim.await;
                    *vi.lock().unwrap() = (polls, r.is_some());
                    r.unwrap_or(CRes::Cancelled)
                } else {
                    exec_cop(s.clone(), op.clone(), label.clone()).await
                };
                let resp = ctl::with_ctl(|c| c.stamp());
                events.lock().unwrap().push(Event {
                    client: ci,
                    idx: oi,
                    op,
                    inv,
                    resp,
                    res,
                    label,
                });
            }
        }));
    }
    for h in handles {
        if let Err(e) = h.await {
            out.findings.push(finding("panic", format!("client task: {e}; {:?}", ctl::take_panic_msgs())));
        }
    }
    // follow-ups by the main task (still explored: a detached job may be pending)
    for (oi, op) in spec.followup.iter().enumerate() {
        let label = format!("f{oi}");
        let inv = ctl::with_ctl(|c| c.stamp());
        let res = exec_cop(storage.clone(), op.clone(), label.clone()).await;
        let resp = ctl::with_ctl(|c| c.stamp());
        events.lock().unwrap().push(Event {
            client: 99,
            idx: oi,
            op: op.clone(),
            inv,
            resp,
            res,
            label,
        });
    }
    let storage = if spec.early_close {
        let st = match Arc::try_unwrap(storage) {
            Ok(s) => s,
            Err(_) => {
                out.findings.push(finding("machinery", "storage still shared at the end".to_string()));
                return out;
            }
        };
        w.storage = Some(st);
        if let Err(e) = w.close().await {
            out.findings.push(finding("close", format!("{e:#}")));
        }
        ctl::with_ctl(|c| c.set_exploring(false));
        ctl::quiesce().await;
        // the session is over: whatever was requested before the close has been carried out
        let names: Vec<String> = world::dir_listing(&dir).into_iter().map(|x| x.0).collect();
        for (id, path) in blobfile::blob_files(&dir) {
            let n = blobfile::parse(&std::fs::read(&path).unwrap_or_default(), World::<K>::key_len()).records.len();
            if n > 0 && !names.iter().any(|f| *f == format!("{}.{id}.index", spec.wcfg.prefix)) {
                out.findings.push(finding("index_dump", format!("after close the blob {id} ({n} records) has no index file: a requested index dump did not complete")));
            }
        }
        if let Err(e) = w.init(false).await {
            out.findings.push(finding("restart", format!("init after the early close failed: {e:#}")));
            return out;
        }
        ctl::quiesce().await;
        Arc::new(w.storage.take().unwrap())
    } else {
        storage
    };
    ctl::with_ctl(|c| c.set_exploring(false));
    ctl::quiesce().await;
    if spec.liveness_check {
        // index dumps may have been deferred (up to 180 s): let that time pass
        ctl::with_ctl(|c| c.request_clock(std::time::Duration::from_secs(200)));
        ctl::quiesce().await;
    }
    out.final_obs = final_obs(&*storage, &spec.keys).await;
    out.in_active = storage.records_count_in_active_blob().await;
    {
        let d = storage.records_count_detailed().await;
        let closed = if out.in_active.is_some() { d.len().saturating_sub(1) } else { d.len() };
        out.closed_counts = d[..closed].iter().map(|x| x.1).collect();
        let names: Vec<String> = world::dir_listing(&dir).into_iter().map(|x| x.0).collect();
        out.closed_without_index = d[..closed]
            .iter()
            .filter(|(id, n)| *n > 0 && !names.iter().any(|f| *f == format!("{}.{id}.index", spec.wcfg.prefix)))
            .map(|x| x.0)
            .collect();
    }
    out.worker_alive = ctl::with_ctl(|c| c.task_alive("worker"));
    if spec.cancel.is_none() {
        // accounting at quiescence against the files (C15 for concurrent histories: whatever the
        // interleaving was, the counters describe the blobs that exist)
        let next_id = storage.next_blob_id();
        let blobs_count = storage.blobs_count().await;
        let mut detailed = storage.records_count_detailed().await;
        detailed.sort();
        let work: Vec<(usize, std::path::PathBuf)> = blobfile::blob_files(&dir);
        let ids: BTreeSet<usize> = work.iter().map(|x| x.0).chain(blobfile::blob_files(&dir.join("corrupted")).into_iter().map(|x| x.0)).collect();
        let mut on_disk: Vec<(usize, usize)> = work
            .iter()
            .map(|(id, p)| (*id, blobfile::parse(&std::fs::read(p).unwrap_or_default(), World::<K>::key_len()).records.len()))
            .collect();
        on_disk.sort();
        // no fault, no cancellation: every id handed out belongs to a blob file
        if ids != (0..next_id).collect::<BTreeSet<usize>>() {
            out.findings.push(finding("accounting.next_blob_id", format!("at quiescence next_blob_id = {next_id}, ids of the blob files {ids:?}")));
        }
        if blobs_count != work.len() {
            out.findings.push(finding("accounting.blobs_count", format!("at quiescence blobs_count = {blobs_count}, blob files in the work directory: {}", work.len())));
        }
        if detailed != on_disk {
            out.findings.push(finding("accounting.records", format!("at quiescence records_count_detailed = {detailed:?}, records per blob file {on_disk:?}")));
        }
    }
    if spec.sync_check {
        let a = if storage.has_active_blob().await { storage.records_count_detailed().await.last().map(|x| x.0) } else { None };
        ctl::with_ctl(|c| c.log.borrow_mut().mark(format!("quiescent active={}", a.map_or("none".to_string(), |x| x.to_string()))));
    }
    let (polls, completed) = *victim_info.lock().unwrap();
    out.polls_of_victim = polls;
    out.victim_completed = completed;
    out.events = events.lock().unwrap().clone();
    let storage = match Arc::try_unwrap(storage) {
        Ok(s) => s,
        Err(_) => {
            out.findings.push(finding("machinery", "storage still shared at the end".to_string()));
            return out;
        }
    };
    w.storage = Some(storage);
    if let Err(e) = w.close().await {
        out.findings.push(finding("close", format!("{e:#}")));
    }
    ctl::quiesce().await;
    if spec.restart_at_end {
        match w.init(false).await {
            Err(e) => out.findings.push(finding("restart", format!("init after the run failed: {e:#}"))),
            Ok(()) => {
                ctl::quiesce().await;
                out.restart_obs = Some(final_obs(w.s(), &spec.keys).await);
                if let Err(e) = w.close().await {
                    out.findings.push(finding("close", format!("{e:#}")));
                }
            }
        }
    }
    // full parse of every blob file (work dir and quarantine)
    for (id, path) in blobfile::blob_files(&dir).into_iter().chain(blobfile::blob_files(&dir.join("corrupted"))) {
        let bytes = std::fs::read(&path).unwrap_or_default();
        for p in blobfile::tiling_problems(&bytes, World::<K>::key_len()) {
            out.findings.push(finding("tiling", format!("{}: {p}", path.file_name().unwrap().to_string_lossy())));
        }
        let parsed = blobfile::parse(&bytes, World::<K>::key_len());
        for r in parsed.records {
            let d0 = r.data_offset() as usize;
            let tag = if r.deleted { String::new() } else { value_tag(&bytes[d0..d0 + r.data_len as usize]) };
            out.disk_records.push((world::key_id(&r.key), r.ts, tag, r.deleted));
        }
        let _ = id;
    }
    world::remove_dir(&dir);
    out
}

// ---------------------------------------------------------------------------------------------
// Linearizability against a placement-independent content model
// ---------------------------------------------------------------------------------------------

#[derive(Debug, Clone, PartialEq, Eq, Hash)]
struct Rec {
    ts: u64,
    del: bool,
    val: String,
    meta: MetaId,
}

#[derive(Debug, Clone, PartialEq, Eq, Hash, Default)]
struct Content {
    keys: BTreeMap<KeyId, Vec<Rec>>,
    allow_dup: bool,
    /// lifecycle state, tracked when every lifecycle call of the instance is synchronous
    life: Option<Life>,
}

/// What the documented preconditions of try_close / try_create / try_restore depend on.
/// `active == None`: unknown (a suppressed duplicate write may or may not have created it).
/// `closed_min`: lower bound on the closed list length (asynchronous rotations only add).
#[derive(Debug, Clone, PartialEq, Eq, Hash)]
struct Life {
    active: Option<bool>,
    closed_min: usize,
}

impl Content {
    fn ranked(&self, k: KeyId) -> Vec<&Rec> {
        // rank = timestamp; on equal timestamps the record stored later comes first (it sits in
        // the same or in a more recently created blob, behind the earlier one)
        let mut v: Vec<&Rec> = self.keys.get(&k).map_or(vec![], |v| v.iter().rev().collect());
        v.sort_by(|a, b| b.ts.cmp(&a.ts));
        v
    }
    fn read(&self, k: KeyId) -> RR {
        match self.ranked(k).first() {
            None => RR::NotFound,
            Some(r) if r.del => RR::Deleted(r.ts),
            Some(r) => RR::Found { ts: r.ts, val: r.val.clone() },
        }
    }
    fn list(&self, k: KeyId) -> Vec<ListEntry> {
        let mut out: Vec<ListEntry> = Vec::new();
        for r in self.ranked(k) {
            // several blobs may carry the same marker: one entry
            if r.del && out.last().map_or(false, |l| l.del && l.ts == r.ts) {
                continue;
            }
            out.push(ListEntry { ts: r.ts, del: r.del, meta: r.meta, val: r.val.clone() });
            if r.del {
                break;
            }
        }
        out
    }
    /// would this write be suppressed as a duplicate?
    fn is_duplicate(&self, e: &Event) -> bool {
        match &e.op {
            COp::W { k, meta, .. } if !self.allow_dup => match meta {
                None => matches!(self.read(*k), RR::Found { .. }),
                Some(m) => self.list(*k).iter().any(|l| !l.del && l.meta == *m),
            },
            _ => false,
        }
    }

    fn apply(&mut self, e: &Event, force_store: bool) -> CRes {
        match &e.op {
            COp::W { k, ts, size, meta } => {
                let live = match meta {
                    None => matches!(self.read(*k), RR::Found { .. }),
                    Some(m) => self.list(*k).iter().any(|l| !l.del && l.meta == *m),
                };
                if self.allow_dup || !live || force_store {
                    let val = value_tag(&value_bytes(&e.label, *size as usize));
                    self.keys.entry(*k).or_default().push(Rec { ts: *ts, del: false, val, meta: meta.unwrap_or(0) });
                    self.note_stored();
                } else {
                    self.note_suppressed();
                }
                CRes::Ok
            }
            COp::D { k, ts } => {
                self.keys.entry(*k).or_default().push(Rec { ts: *ts, del: true, val: String::new(), meta: 0 });
                self.note_stored();
                CRes::Count(0)
            }
            COp::R(k) => CRes::Read(match self.read(*k) {
                RR::Found { val, .. } => RR::Found { ts: 0, val },
                o => o,
            }),
            COp::C(k) => CRes::Read(match self.read(*k) {
                RR::Found { ts, .. } => RR::Found { ts, val: String::new() },
                o => o,
            }),
            COp::RA(k) => CRes::List(Ok(self.list(*k))),
            COp::M(op) => self.apply_life(*op, &e.res),
        }
    }

    /// `CRes::Done`: the precondition holds at this point of the order, the call has to succeed;
    /// `CRes::Ok`: no constraint on the result.
    fn apply_life(&mut self, op: Op, got: &CRes) -> CRes {
        let Some(l) = self.life.as_mut() else { return CRes::Ok };
        let succeeded = matches!(got, CRes::Done);
        match op {
            Op::TryClose => match l.active {
                Some(true) => {
                    l.active = Some(false);
                    l.closed_min += 1;
                    CRes::Done
                }
                Some(false) => CRes::Ok,
                None => {
                    if succeeded {
                        l.active = Some(false);
                        l.closed_min += 1;
                    }
                    CRes::Ok
                }
            },
            Op::TryCreate => match l.active {
                Some(false) => {
                    l.active = Some(true);
                    CRes::Done
                }
                Some(true) => CRes::Ok,
                None => {
                    if succeeded {
                        l.active = Some(true);
                    }
                    CRes::Ok
                }
            },
            Op::TryRestore => {
                if l.active == Some(false) && l.closed_min >= 1 {
                    l.active = Some(true);
                    l.closed_min -= 1;
                    CRes::Done
                } else {
                    if succeeded && l.active != Some(true) {
                        l.active = Some(true);
                        l.closed_min = l.closed_min.saturating_sub(1);
                    }
                    CRes::Ok
                }
            }
            _ => CRes::Ok,
        }
    }

    fn note_stored(&mut self) {
        if let Some(l) = self.life.as_mut() {
            l.active = Some(true);
        }
    }
    fn note_suppressed(&mut self) {
        if let Some(l) = self.life.as_mut() {
            if l.active != Some(true) {
                l.active = None;
            }
        }
    }
}

fn res_matches(op: &COp, got: &CRes, want: &CRes) -> bool {
    match (op, got, want) {
        // the number of blobs marked depends on the placement: any positive count
        (COp::D { .. }, CRes::Count(n), _) => *n >= 1,
        // lifecycle calls: content-neutral; have to succeed when their documented precondition
        // holds at their place in the order, otherwise Ok or a precondition error
        (COp::M(_), got, CRes::Done) => *got == CRes::Done,
        (COp::M(_), _, _) => true,
        (COp::RA(_), CRes::List(Ok(g)), CRes::List(Ok(w))) => dedup_markers(g) == *w,
        _ => got == want,
    }
}

fn dedup_markers(l: &[ListEntry]) -> Vec<ListEntry> {
    let mut out: Vec<ListEntry> = Vec::new();
    for e in l {
        if e.del && out.last().map_or(false, |x| x.del && x.ts == e.ts) {
            continue;
        }
        out.push(e.clone());
    }
    out
}

fn final_matches(c: &Content, fin: &BTreeMap<KeyId, KeyFinal>, disk_puts: &BTreeSet<(KeyId, u64, String)>, check_disk: bool) -> bool {
    for (k, f) in fin {
        let want = match c.read(*k) {
            RR::Found { val, .. } => RR::Found { ts: 0, val },
            o => o,
        };
        if f.read != want {
            return false;
        }
        match &f.list {
            Ok(l) if dedup_markers(l) == c.list(*k) => {}
            _ => return false,
        }
    }
    if check_disk {
        let model_puts: BTreeSet<(KeyId, u64, String)> = c
            .keys
            .iter()
            .flat_map(|(k, v)| v.iter().filter(|r| !r.del).map(move |r| (*k, r.ts, r.val.clone())))
            .collect();
        if model_puts != *disk_puts {
            return false;
        }
    }
    true
}

/// Brute force over all total orders consistent with real time.
/// `racy_dups`: quirk of the open known finding "dup-check-race": a write that overlaps in
/// real time with another write to the same key may escape duplicate suppression.
fn linearizable(
    start: &Content,
    events: &[Event],
    fin: &BTreeMap<KeyId, KeyFinal>,
    disk_puts: &BTreeSet<(KeyId, u64, String)>,
    check_disk: bool,
    racy_dups: bool,
) -> bool {
    linearizable_ext(start, events, fin, disk_puts, check_disk, racy_dups, None)
}

/// `late_effect`: index of a (cancelled) write whose effect may arrive later than its duplicate
/// check, which ran at its invocation: it is stored even if the key has become live since.
fn linearizable_ext(
    start: &Content,
    events: &[Event],
    fin: &BTreeMap<KeyId, KeyFinal>,
    disk_puts: &BTreeSet<(KeyId, u64, String)>,
    check_disk: bool,
    racy_dups: bool,
    late_effect: Option<usize>,
) -> bool {
    let overlapping: Vec<bool> = (0..events.len())
        .map(|i| {
            late_effect == Some(i) || racy_dups
                && matches!(events[i].op, COp::W { .. })
                && (0..events.len()).any(|j| {
                    j != i
                        && matches!(events[j].op, COp::W { .. })
                        && events[j].op.key() == events[i].op.key()
                        && events[j].inv < events[i].resp
                        && events[i].inv < events[j].resp
                })
        })
        .collect();
    fn rec(
        c: &Content,
        events: &[Event],
        done: &mut Vec<bool>,
        fin: &BTreeMap<KeyId, KeyFinal>,
        disk_puts: &BTreeSet<(KeyId, u64, String)>,
        check_disk: bool,
        overlapping: &[bool],
    ) -> bool {
        if done.iter().all(|d| *d) {
            return final_matches(c, fin, disk_puts, check_disk);
        }
        // candidates: not done, and no other undone event responded before it was invoked
        for i in 0..events.len() {
            if done[i] {
                continue;
            }
            let blocked = (0..events.len()).any(|j| !done[j] && j != i && events[j].resp < events[i].inv);
            if blocked {
                continue;
            }
            let variants: &[bool] = if overlapping[i] && c.is_duplicate(&events[i]) { &[false, true] } else { &[false] };
            for force in variants {
                let mut c2 = c.clone();
                let want = c2.apply(&events[i], *force);
                if !res_matches(&events[i].op, &events[i].res, &want) {
                    continue;
                }
                done[i] = true;
                let ok = rec(&c2, events, done, fin, disk_puts, check_disk, overlapping);
                done[i] = false;
                if ok {
                    return true;
                }
            }
        }
        false
    }
    let mut done = vec![false; events.len()];
    rec(start, events, &mut done, fin, disk_puts, check_disk, &overlapping)
}

fn prefix_content(spec: &SchedSpec, key_len: usize) -> (Content, RefStore) {
    let mut m = RefStore::fresh(spec.wcfg.allow_duplicates);
    m.max_data = spec.wcfg.max_data_in_blob;
    m.max_size = spec.wcfg.max_blob_size;
    for (i, op) in spec.prefix.iter().enumerate() {
        let tag = match op {
            Op::Write { k, ts, size, .. } => value_tag(&value_bytes(&format!("w{}k{}t{}", i, k, ts), *size as usize)),
            _ => String::new(),
        };
        oracle::apply_model(&mut m, *op, &tag, key_len);
    }
    let asynchronous = |o: &COp| matches!(o, COp::M(Op::CloseBg | Op::CreateBg | Op::RestoreBg));
    let life = if spec.cancel.is_some() || spec.clients.iter().flatten().chain(spec.followup.iter()).any(asynchronous) {
        None
    } else {
        Some(Life { active: Some(m.active.is_some()), closed_min: m.closed.iter().filter(|b| b.is_some()).count() })
    };
    let mut c = Content { keys: BTreeMap::new(), allow_dup: spec.wcfg.allow_duplicates, life };
    for b in m.blobs() {
        for r in &b.records {
            c.keys.entry(r.key).or_default().push(Rec { ts: r.ts, del: r.del, val: r.val.clone(), meta: r.meta });
        }
    }
    (c, m)
}

pub fn judge(spec: &SchedSpec, trace: &RunTrace, panics: &[String], out: &SchedOut) -> Vec<Finding> {
    let mut fs = out.findings.clone();
    match &trace.end {
        EndState::Finished => {}
        EndState::Deadlock(t) => fs.push(finding("deadlock", format!("no task can run: {t:?}"))),
        EndState::StepCap => fs.push(finding("machinery", "step cap".to_string())),
        EndState::Divergence(s) => fs.push(finding("machinery", format!("replay divergence: {s}"))),
    }
    if !panics.is_empty() {
        fs.push(finding("panic", format!("{panics:?}")));
    }
    if !fs.is_empty() {
        return fs;
    }
    for e in &out.events {
        match (&e.op, &e.res) {
            (COp::M(_), _) => {}
            (_, CRes::Err(m)) => fs.push(finding("op_error", format!("{} by client {} failed: {m}", e.op.short(), e.client))),
            (_, CRes::Read(RR::Err(m))) | (_, CRes::List(Err(m))) => {
                fs.push(finding("read_error", format!("{} by client {} failed: {m}", e.op.short(), e.client)))
            }
            _ => {}
        }
    }
    if !fs.is_empty() {
        return fs;
    }
    if spec.liveness_check {
        if !out.worker_alive {
            fs.push(finding("worker_dead", "the background worker is not running at the end of the run".to_string()));
        }
        // requested index dumps complete: a closed blob keeps its index in memory only while a
        // deferred dump is registered
        // (200 s have passed since the last operation: a deferred dump has fired as well)
        if !out.closed_without_index.is_empty() {
            fs.push(finding(
                "index_dump",
                format!("at quiescence the closed blobs {:?} have no index file: a requested index dump did not complete", out.closed_without_index),
            ));
        }
        if let Some(n) = out.in_active {
            if n as u64 >= spec.wcfg.max_data_in_blob {
                fs.push(finding(
                    "no_switch",
                    format!("at quiescence the active blob holds {} records, limit {}: no switch happened", n, spec.wcfg.max_data_in_blob),
                ));
            }
        }
    }
    // a switch to a new blob happens because the active blob is full (or on request): without
    // lifecycle calls in the instance no closed blob is empty (one overflow, one switch)
    let lifecycle = |o: &Op| matches!(o, Op::Rot | Op::ForceNever | Op::TryClose | Op::TryCreate | Op::TryRestore | Op::CloseBg | Op::CreateBg | Op::RestoreBg | Op::Rst | Op::RstLazy);
    let any_lifecycle = spec.prefix.iter().any(lifecycle)
        || spec.clients.iter().flatten().chain(spec.followup.iter()).any(|c| matches!(c, COp::M(o) if lifecycle(o)));
    if !any_lifecycle && spec.cancel.is_none() && out.closed_counts.iter().any(|n| *n == 0) {
        fs.push(finding(
            "empty_closed_blob",
            format!("at quiescence a closed blob holds no record (records per closed blob: {:?}): more switches than overflows", out.closed_counts),
        ));
    }
    let (start, _) = prefix_content(spec, 4);
    let disk_puts: BTreeSet<(KeyId, u64, String)> = out
        .disk_records
        .iter()
        .filter(|r| !r.3)
        .map(|r| (r.0, r.1, r.2.clone()))
        .collect();
    let disk_put_count = out.disk_records.iter().filter(|r| !r.3).count();
    if spec.gather_at_send {
        // scale run: too many operations for the linearizability search; every acknowledged write
        // must be on disk exactly once and readable
        let acked = out.events.iter().filter(|e| matches!(e.op, COp::W { .. }) && e.res == CRes::Ok).count();
        if disk_put_count != acked + start.keys.values().map(|v| v.iter().filter(|r| !r.del).count()).sum::<usize>() {
            fs.push(finding("lost_or_duplicated", format!("{acked} writes acknowledged, {disk_put_count} put records on disk")));
        }
        return fs;
    }
    if spec.cancel.is_none() {
        if disk_put_count != disk_puts.len() {
            fs.push(finding("duplicate_on_disk", format!("a record is stored twice: {:?}", out.disk_records)));
        }
        if !linearizable(&start, &out.events, &out.final_obs, &disk_puts, true, false) {
            let kind = if linearizable(&start, &out.events, &out.final_obs, &disk_puts, true, true) {
                "dup_check_race"
            } else {
                "not_linearizable"
            };
            fs.push(finding(
                kind,
                format!(
                    "no linearization explains the results and the final state: events {:?} final {:?} disk {:?}",
                    out.events.iter().map(|e| format!("c{}:{}[{}..{}]={:?}", e.client, e.op.short(), e.inv, e.resp, e.res)).collect::<Vec<_>>(),
                    out.final_obs,
                    disk_puts
                ),
            ));
        }
        if let Some(r) = &out.restart_obs {
            if *r != out.final_obs {
                fs.push(finding("restart_differs", format!("after restart {:?}, before {:?}", r, out.final_obs)));
            }
        }
    } else {
        fs.extend(judge_cancel(spec, &start, out, &disk_puts));
    }
    fs
}

/// C14: the cancelled operation took effect entirely or not at all; everything else is intact.
fn judge_cancel(spec: &SchedSpec, start: &Content, out: &SchedOut, disk_puts: &BTreeSet<(KeyId, u64, String)>) -> Vec<Finding> {
    let mut fs = Vec::new();
    let c = spec.cancel.unwrap();
    let victim = match out.events.iter().find(|e| e.client == c.client && e.idx == c.op) {
        Some(v) => v.clone(),
        None => return vec![finding("machinery", "victim event missing".to_string())],
    };
    // two candidate worlds: victim applied at its invocation, or never
    let others: Vec<Event> = out.events.iter().filter(|e| !(e.client == c.client && e.idx == c.op)).cloned().collect();
    let mut applied = others.clone();
    let mut v2 = victim.clone();
    v2.res = match &victim.op {
        COp::W { .. } => CRes::Ok,
        COp::D { .. } => CRes::Count(1),
        _ => victim.res.clone(),
    };
    // a cancelled call has no response: it may take effect any time after its invocation
    v2.resp = u64::MAX;
    applied.push(v2);
    let in_session_ok = linearizable(start, &others, &out.final_obs, disk_puts, false, false)
        || linearizable_ext(start, &applied, &out.final_obs, disk_puts, false, false, Some(applied.len() - 1));
    if !in_session_ok {
        fs.push(finding(
            "cancel_session",
            format!(
                "after cancelling {} at poll {}: results {:?} and final state {:?} fit neither 'applied' nor 'not applied'",
                victim.op.short(),
                c.k,
                others.iter().map(|e| format!("{}={:?}", e.op.short(), e.res)).collect::<Vec<_>>(),
                out.final_obs
            ),
        ));
    }
    if let Some(r) = &out.restart_obs {
        // the victim's bytes may sit in the blob without being served (not applied) - what is
        // served must be all or nothing; the on-disk parse is checked by the tiling oracle
        let after_ok = linearizable(start, &others, r, disk_puts, false, false) || linearizable_ext(start, &applied, r, disk_puts, false, false, Some(applied.len() - 1));
        if !after_ok {
            fs.push(finding(
                "cancel_restart",
                format!(
                    "after cancelling {} at poll {} and a restart: state {:?} / disk {:?} fits neither 'applied' nor 'not applied'",
                    victim.op.short(),
                    c.k,
                    r,
                    disk_puts
                ),
            ));
        }
    }
    fs
}

// ---------------------------------------------------------------------------------------------
// Running and exploring
// ---------------------------------------------------------------------------------------------

pub fn ctl_config(spec: &SchedSpec) -> CtlConfig {
    let mut cfg = CtlConfig::concurrent(spec.io_mode);
    cfg.lock_points = spec.lock_points;
    cfg.read_points = spec.read_points;
    cfg.channel_capacity = spec.channel_capacity;
    cfg.clock_choices = spec.clock_choices;
    cfg.auto_clock = None;
    cfg.step_cap = 20_000;
    cfg.split_write_jobs = spec.split_write_jobs;
    cfg.gather_at_send = spec.gather_at_send;
    if spec.gather_at_send {
        cfg.step_cap = 2_000_000;
    }
    cfg
}

pub fn run_once(spec: &SchedSpec, prefix: &[usize]) -> (RunTrace, Vec<String>, SchedOut) {
    let s = spec.clone();
    let exec = ctl::execute(ctl_config(spec), prefix, None, move || main_task::<ArrayKey<4>>(s));
    let panics = exec.ctl.panics.borrow().clone();
    let sync_findings = if spec.sync_check {
        crate::engines::syncmon::check_log(&exec.ctl.log.borrow(), spec.wcfg.max_dirty)
    } else {
        vec![]
    };
    let out = match exec.result {
        Ok(mut o) => {
            o.findings.extend(sync_findings);
            o
        }
        Err(e) => SchedOut {
            findings: if matches!(exec.trace.end, EndState::Finished) {
                vec![finding("panic", format!("main task: {e}"))]
            } else {
                vec![]
            },
            ..Default::default()
        },
    };
    (exec.trace, panics, out)
}

#[derive(Debug, Default, Clone, serde::Serialize)]
pub struct SchedStats {
    pub spec: String,
    pub executions: usize,
    pub bound: usize,
    pub bound_completed: bool,
    pub max_decisions: usize,
    pub distinct_outcomes: usize,
    pub violations: usize,
    pub sample_schedule: Vec<usize>,
}

#[derive(Debug, Clone, serde::Serialize)]
pub struct SchedViolation {
    pub spec: SchedSpec,
    pub schedule: Vec<usize>,
    pub preemptions: usize,
    pub findings: Vec<Finding>,
}

pub struct SchedResult {
    pub stats: SchedStats,
    pub violations: Vec<SchedViolation>,
}

fn hash<T: Hash>(t: &T) -> u64 {
    let mut h = std::collections::hash_map::DefaultHasher::new();
    t.hash(&mut h);
    h.finish()
}

/// Iterates the preemption bound 0..=spec.bound; stops at the first bound with a violation.
pub fn explore(spec: &SchedSpec) -> SchedResult {
    let mut stats = SchedStats { spec: spec.name.clone(), bound: spec.bound, ..Default::default() };
    let mut violations = Vec::new();
    let mut outcomes: BTreeSet<u64> = BTreeSet::new();
    // determinism self-check: the default schedule twice
    let (t1, _, o1) = run_once(spec, &[]);
    let (t2, _, o2) = run_once(spec, &[]);
    if t1.choices() != t2.choices() || o1.events != o2.events || o1.final_obs != o2.final_obs {
        violations.push(SchedViolation {
            spec: spec.clone(),
            schedule: vec![],
            preemptions: 0,
            findings: vec![finding("machinery", "the default schedule is not deterministic".to_string())],
        });
        stats.violations = 1;
        return SchedResult { stats, violations };
    }
    let mut total_execs = 0usize;
    for bound in 0..=spec.bound {
        let mut found = false;
        let (execs, completed) = ctl::explore(
            bound,
            spec.max_execs.saturating_sub(total_execs),
            |prefix| {
                let (trace, panics, out) = run_once(spec, prefix);
                (trace, (panics, out))
            },
            |trace, (panics, out)| {
                // only executions with exactly `bound` preemptions are new at this bound
                stats.max_decisions = stats.max_decisions.max(trace.decisions.len());
                outcomes.insert(hash(&(&out.events.iter().map(|e| (&e.op, &e.res)).collect::<Vec<_>>(), &out.final_obs)));
                let fs = judge(spec, trace, &panics, &out);
                if !fs.is_empty() {
                    stats.violations += 1;
                    if violations.len() < 3 {
                        violations.push(SchedViolation {
                            spec: spec.clone(),
                            schedule: trace.choices(),
                            preemptions: trace.preemptions(),
                            findings: fs,
                        });
                    }
                    found = true;
                    return violations.len() < 3;
                }
                if stats.sample_schedule.is_empty() && trace.preemptions() > 0 {
                    stats.sample_schedule = trace.choices();
                }
                true
            },
        );
        total_execs += execs;
        stats.executions = total_execs;
        stats.bound_completed = completed;
        if found || !completed {
            stats.bound = bound;
            break;
        }
    }
    stats.distinct_outcomes = outcomes.len();
    SchedResult { stats, violations }
}
