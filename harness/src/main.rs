mod ctl;
mod engines;
mod blobfile;
mod evidence;
mod model;
mod oracle;
mod props;
mod tap;
mod world;

fn main() {
    let args: Vec<String> = std::env::args().collect();
    if args.len() < 2 {
        eprintln!("usage: pearl-mc <check|selftest|replay> ...");
        std::process::exit(2);
    }
    ctl::install_panic_hook();
    let code = match args[1].as_str() {
        "check" => props::check_cmd(&args[2..]),
        "selftest" => props::selftest(),
        "tools-worker" => engines::tools::worker(std::path::Path::new(&args[2]), std::path::Path::new(&args[3])),
        "sched-probe" => props::sched_probe(),
        "sched-debug" => props::sched_debug(&args[2]),
        "sched-trace" => props::sched_trace(&args[2]),
        other => {
            eprintln!("unknown command {other}");
            2
        }
    };
    // (the scratch root carries the pid: every process, worker children included, removes its own)
    let _ = std::fs::remove_dir_all(world::scratch_root());
    std::process::exit(code);
}
