//! The I/O log fed by the tap, fault plans, and the monitors evaluated over the log.

use std::collections::BTreeMap;
use std::io;
use std::path::{Path, PathBuf};

use pearl::verif::{IoEvent, IoOp, TapAction};

use crate::ctl::{is_blob, is_index};

#[derive(Debug, Clone)]
pub enum Entry {
    /// a file operation about to be executed (faulted: the tap made it fail / come up short)
    Io {
        task: Option<usize>,
        ev: IoEvent,
        faulted: bool,
        /// bytes that reached the file when a write was shortened
        short: Option<usize>,
        /// (rename) did the destination exist when the operation was issued
        dest_existed: bool,
    },
    /// result of an open
    Opened { task: Option<usize>, ev: IoEvent },
    /// harness marker: an API call begins / ends
    Mark(String),
}

#[derive(Debug, Default)]
pub struct IoLog {
    pub entries: Vec<Entry>,
}

impl IoLog {
    pub fn record(&mut self, task: Option<usize>, ev: &IoEvent, faulted: bool, action: &TapAction) {
        let ev = ev.clone();
        let short = match action {
            TapAction::Short(n, _) => Some(*n),
            _ => None,
        };
        let faulted = faulted && !matches!(action, TapAction::Defer);
        let dest_existed = match &ev.op {
            IoOp::Rename { to } => to.exists(),
            _ => false,
        };
        self.entries.push(Entry::Io {
            task,
            ev,
            faulted,
            short,
            dest_existed,
        });
    }

    pub fn record_done(&mut self, task: Option<usize>, ev: &IoEvent) {
        self.entries.push(Entry::Opened {
            task,
            ev: ev.clone(),
        });
    }

    pub fn mark(&mut self, s: impl Into<String>) {
        self.entries.push(Entry::Mark(s.into()));
    }

    pub fn len(&self) -> usize {
        self.entries.len()
    }

    /// Mutating events (everything but reads and opens of existing files without truncation).
    pub fn mutating_between(&self, from: usize, to: usize) -> Vec<String> {
        let mut out = Vec::new();
        for e in &self.entries[from..to.min(self.entries.len())] {
            if let Entry::Io { ev, .. } = e {
                match &ev.op {
                    IoOp::Read { .. } => {}
                    IoOp::Open { existed: true, .. } => {}
                    op => out.push(format!("{}:{}", crate::ctl::op_name(op), short_path(&ev.path))),
                }
            }
        }
        out
    }
}

pub fn short_path(p: &Path) -> String {
    let name = p.file_name().map(|s| s.to_string_lossy().to_string()).unwrap_or_default();
    match p.parent().and_then(|d| d.file_name()) {
        Some(d) if d == "corrupted" => format!("corrupted/{name}"),
        _ => name,
    }
}

// ---------------------------------------------------------------------------------------------
// Fault plans
// ---------------------------------------------------------------------------------------------

#[derive(Debug, Clone, Copy, PartialEq, Eq, Hash, PartialOrd, Ord, serde::Serialize, serde::Deserialize)]
pub enum FaultOp {
    Create,
    Open,
    Write,
    Sync,
    Truncate,
    Rename,
    Remove,
    Mkdir,
    Read,
}

#[derive(Debug, Clone, Copy, PartialEq, Eq, Hash, PartialOrd, Ord, serde::Serialize, serde::Deserialize)]
pub enum FileClass {
    Blob,
    Index,
    Any,
}

#[derive(Debug, Clone, Copy, PartialEq, Eq, Hash, serde::Serialize, serde::Deserialize)]
pub enum FaultKind {
    /// the operation fails with this errno and has no effect
    Errno(i32),
    /// (writes) `keep` bytes reach the file (clamped to the payload), then the errno is reported.
    /// `keep` is interpreted by `ShortSpec`.
    Short(ShortSpec, i32),
}

#[derive(Debug, Clone, Copy, PartialEq, Eq, Hash, serde::Serialize, serde::Deserialize)]
pub enum ShortSpec {
    Zero,
    One,
    Half,
    AllButOne,
}

#[derive(Debug, Clone, serde::Serialize, serde::Deserialize)]
pub struct FaultPlan {
    pub op: FaultOp,
    pub class: FileClass,
    /// 0-based occurrence among matching operations
    pub nth: usize,
    pub kind: FaultKind,
    /// the fault persists for this many consecutive matching operations (1 = a single fault)
    #[serde(default = "one")]
    pub repeat: usize,
    #[serde(skip)]
    pub seen: usize,
    #[serde(skip)]
    pub fired: bool,
    /// how many operations have failed so far
    #[serde(skip)]
    pub fires: usize,
    /// only count operations once armed (the harness arms after the prefix)
    #[serde(skip)]
    pub armed: bool,
}

fn one() -> usize {
    1
}

impl FaultPlan {
    pub fn new(op: FaultOp, class: FileClass, nth: usize, kind: FaultKind) -> Self {
        Self {
            op,
            class,
            nth,
            kind,
            repeat: 1,
            seen: 0,
            fired: false,
            fires: 0,
            armed: true,
        }
    }

    pub fn repeated(mut self, repeat: usize) -> Self {
        self.repeat = repeat.max(1);
        self
    }

    pub fn matches(op: FaultOp, class: FileClass, ev: &IoEvent) -> bool {
        let class_ok = match class {
            FileClass::Any => true,
            FileClass::Blob => is_blob(&ev.path),
            FileClass::Index => is_index(&ev.path),
        };
        if !class_ok {
            return false;
        }
        match (&ev.op, op) {
            (IoOp::Open { existed: false, .. }, FaultOp::Create) => true,
            (IoOp::Open { existed: true, .. }, FaultOp::Open) => true,
            (IoOp::Write { .. }, FaultOp::Write) => true,
            (IoOp::Sync { .. }, FaultOp::Sync) => true,
            (IoOp::Truncate, FaultOp::Truncate) => true,
            (IoOp::Rename { .. }, FaultOp::Rename) => true,
            (IoOp::Remove, FaultOp::Remove) => true,
            (IoOp::CreateDir, FaultOp::Mkdir) => true,
            (IoOp::Read { .. }, FaultOp::Read) => true,
            _ => false,
        }
    }

    pub fn decide(&mut self, ev: &IoEvent) -> TapAction {
        if !self.armed || !Self::matches(self.op, self.class, ev) {
            return TapAction::Proceed;
        }
        let n = self.seen;
        self.seen += 1;
        if n < self.nth || n >= self.nth + self.repeat {
            return TapAction::Proceed;
        }
        self.fired = true;
        self.fires += 1;
        match self.kind {
            FaultKind::Errno(e) => TapAction::Fail(io::Error::from_raw_os_error(e)),
            FaultKind::Short(spec, e) => {
                let len = match &ev.op {
                    IoOp::Write { data, .. } => data.len(),
                    _ => 0,
                };
                let keep = match spec {
                    ShortSpec::Zero => 0,
                    ShortSpec::One => 1.min(len),
                    ShortSpec::Half => len / 2,
                    ShortSpec::AllButOne => len.saturating_sub(1),
                };
                TapAction::Short(keep, io::Error::from_raw_os_error(e))
            }
        }
    }
}

// ---------------------------------------------------------------------------------------------
// Monitors over the log
// ---------------------------------------------------------------------------------------------

/// C07 append-only monitor: returns descriptions of violating events in `entries[from..]`.
/// `ever_ids`: blob ids ever seen in the directory before this log started (harness supplied);
/// newly created blob ids are added to it.
pub fn append_only_violations(
    log: &IoLog,
    from: usize,
    ever_ids: &mut std::collections::BTreeSet<usize>,
) -> Vec<String> {
    append_only_violations_in(log, from, usize::MAX, ever_ids)
}

/// The same over `entries[from..to]`.
pub fn append_only_violations_in(
    log: &IoLog,
    from: usize,
    to: usize,
    ever_ids: &mut std::collections::BTreeSet<usize>,
) -> Vec<String> {
    let mut out = Vec::new();
    let to = to.min(log.entries.len());
    for e in &log.entries[from.min(to)..to] {
        match e {
            Entry::Io { ev, faulted, dest_existed, .. } => {
                let blob = is_blob(&ev.path);
                match &ev.op {
                    IoOp::Write {
                        offset, len_before, data,
                    } if blob => {
                        // a blob header behind existing bytes: the file (and its id) was handed to a
                        // new blob although it had been used before
                        if *offset > 0 && data.len() == 20 && data[..8] == crate::blobfile::BLOB_MAGIC.to_le_bytes() {
                            out.push(format!(
                                "blob header written at offset {} of {}: the id was assigned to a new blob although a file with it existed",
                                offset,
                                short_path(&ev.path)
                            ));
                        }
                        // appended bytes are never overwritten: no write starts below the end
                        if offset < len_before {
                            out.push(format!(
                                "write to {} at offset {} but file length is {}",
                                short_path(&ev.path),
                                offset,
                                len_before
                            ));
                        }
                    }
                    IoOp::Truncate if blob && !faulted => {
                        out.push(format!("truncate of {}", short_path(&ev.path)))
                    }
                    IoOp::Remove if blob && !faulted => {
                        out.push(format!("unlink of {}", short_path(&ev.path)))
                    }
                    IoOp::Rename { to } if blob && !faulted => {
                        let into_corrupted = to
                            .parent()
                            .and_then(|d| d.file_name())
                            .map_or(false, |d| d == "corrupted")
                            && to.file_name() == ev.path.file_name();
                        if !into_corrupted {
                            out.push(format!(
                                "rename of {} to {}",
                                short_path(&ev.path),
                                to.display()
                            ));
                        } else if *dest_existed {
                            out.push(format!(
                                "rename of {} over existing {}",
                                short_path(&ev.path),
                                short_path(to)
                            ));
                        }
                    }
                    IoOp::Open { existed: false, .. } if blob && !faulted => {
                        if let Some(id) = blob_id(&ev.path) {
                            if !ever_ids.insert(id) {
                                out.push(format!(
                                    "blob id {} assigned to a new file {} although it was used before",
                                    id,
                                    short_path(&ev.path)
                                ));
                            }
                        }
                    }
                    _ => {}
                }
            }
            Entry::Opened { ev, .. } => {
                if let IoOp::Open {
                    existed: true,
                    len_before,
                    len_after: Some(after),
                } = &ev.op
                {
                    if is_blob(&ev.path) && after < len_before {
                        out.push(format!(
                            "open of {} shrank it from {} to {} bytes",
                            short_path(&ev.path),
                            len_before,
                            after
                        ));
                    }
                }
            }
            Entry::Mark(_) => {}
        }
    }
    out
}

pub fn blob_id(p: &Path) -> Option<usize> {
    let stem = p.file_stem()?.to_str()?;
    stem.rsplit('.').next()?.parse().ok()
}

/// Byte snapshots of every `*.blob` in `dir` and `dir/corrupted`, keyed by short path.
pub fn snapshot_blobs(dir: &Path) -> BTreeMap<String, Vec<u8>> {
    let mut out = BTreeMap::new();
    for (d, prefix) in [(dir.to_path_buf(), ""), (dir.join("corrupted"), "corrupted/")] {
        if let Ok(rd) = std::fs::read_dir(&d) {
            for e in rd.flatten() {
                let p = e.path();
                if is_blob(&p) && p.is_file() {
                    if let Ok(bytes) = std::fs::read(&p) {
                        out.insert(
                            format!("{prefix}{}", p.file_name().unwrap().to_string_lossy()),
                            bytes,
                        );
                    }
                }
            }
        }
    }
    out
}

/// C07 snapshot monitor: every blob of `before` must be a prefix of the same-named blob in
/// `after`, or sit byte-identical in the corrupted directory.
pub fn snapshot_violations(
    before: &BTreeMap<String, Vec<u8>>,
    after: &BTreeMap<String, Vec<u8>>,
) -> Vec<String> {
    let mut out = Vec::new();
    for (name, old) in before {
        match after.get(name) {
            Some(new) if new.len() >= old.len() && new[..old.len()] == old[..] => {}
            Some(new) => out.push(format!(
                "{name}: earlier content ({} bytes) is not a prefix of later content ({} bytes)",
                old.len(),
                new.len()
            )),
            None => {
                if name.starts_with("corrupted/") {
                    out.push(format!("{name}: quarantined file disappeared"));
                    continue;
                }
                match after.get(&format!("corrupted/{name}")) {
                    Some(q) if q == old => {}
                    Some(_) => out.push(format!("{name}: moved to corrupted/ with different bytes")),
                    None => out.push(format!("{name}: blob file disappeared")),
                }
            }
        }
    }
    out
}

/// Per-file length / synced length derived from the log (C12).
#[derive(Debug, Default, Clone)]
pub struct SyncState {
    pub len: BTreeMap<PathBuf, u64>,
    pub synced: BTreeMap<PathBuf, u64>,
}

impl SyncState {
    pub fn apply(&mut self, e: &Entry) {
        match e {
            Entry::Io {
                ev,
                faulted,
                short,
                ..
            } => match &ev.op {
                IoOp::Write { offset, data, .. } => {
                    let n = if *faulted { short.unwrap_or(0) as u64 } else { data.len() as u64 };
                    let end = offset + n;
                    let l = self.len.entry(ev.path.clone()).or_insert(0);
                    if end > *l {
                        *l = end;
                    }
                }
                IoOp::Sync { upto } if !faulted => {
                    let s = self.synced.entry(ev.path.clone()).or_insert(0);
                    if *upto > *s {
                        *s = *upto;
                    }
                }
                IoOp::Truncate if !faulted => {
                    self.len.insert(ev.path.clone(), 0);
                    self.synced.insert(ev.path.clone(), 0);
                }
                _ => {}
            },
            Entry::Opened { ev, .. } => {
                if let IoOp::Open {
                    len_after: Some(n), ..
                } = &ev.op
                {
                    // a file the log has never seen is taken as durable up to its length (C12
                    // speaks about what the storage itself wrote); a file written earlier in the
                    // log keeps its synced length: after a drop without close its tail is not
                    // known to be durable
                    let known = self.len.contains_key(&ev.path);
                    self.len.insert(ev.path.clone(), *n);
                    let s = self.synced.entry(ev.path.clone()).or_insert(0);
                    if !known || *n == 0 {
                        *s = *n;
                    } else if *s > *n {
                        *s = *n;
                    }
                }
            }
            Entry::Mark(_) => {}
        }
    }

    pub fn dirty(&self, p: &Path) -> u64 {
        self.len.get(p).copied().unwrap_or(0).saturating_sub(self.synced.get(p).copied().unwrap_or(0))
    }
}
