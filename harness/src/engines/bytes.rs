//! C05: byte integrity. Round trip of values across the write-path thresholds, and enumeration
//! of corruptions of stored data bytes (position x pattern) read back through the API.

use std::collections::BTreeSet;
use std::io::{Read, Seek, SeekFrom, Write};
use std::path::{Path, PathBuf};
use std::sync::atomic::{AtomicUsize, Ordering};
use std::sync::Mutex;

use bytes::Bytes;
use pearl::{ArrayKey, BlobRecordTimestamp, Meta, ReadResult};

use crate::blobfile;
use crate::ctl::{self, CtlConfig, IoMode};
use crate::oracle::{finding, Finding};
use crate::world::{self, make_key, value_bytes, HKey, Op, WCfg, World};

// ---------------------------------------------------------------------------------------------
// Round trip
// ---------------------------------------------------------------------------------------------

fn meta_shape(shape: u8) -> Option<Meta> {
    let mut m = Meta::new();
    match shape {
        0 => return None,
        1 => {
            m.insert("a".to_string(), b"xyz".to_vec());
        }
        2 => {
            m.insert("a".to_string(), b"1".to_vec());
            m.insert("empty".to_string(), Vec::<u8>::new());
            m.insert("c".to_string(), vec![0u8, 255, 7]);
        }
        3 => {
            m.insert("big".to_string(), (0..1024u32).map(|i| (i * 7) as u8).collect::<Vec<u8>>());
        }
        4 => {
            // header + metadata alone are larger than the single-pass buffer (4096 bytes)
            m.insert("big".to_string(), (0..5000u32).map(|i| (i * 13) as u8).collect::<Vec<u8>>());
            m.insert("".to_string(), b"empty key".to_vec());
        }
        _ => {
            // ... and larger than the in-place I/O threshold
            m.insert("big".to_string(), (0..100_000u32).map(|i| (i * 31) as u8).collect::<Vec<u8>>());
        }
    }
    Some(m)
}

fn meta_len(shape: u8) -> usize {
    match meta_shape(shape) {
        None => 8,
        Some(m) => {
            // bincode of HashMap<String, Vec<u8>>: 8 + sum(8 + klen + 8 + vlen)
            let mut n = 8;
            for k in ["a", "empty", "c", "big", ""] {
                if let Some(v) = m.get(k) {
                    n += 8 + k.len() + 8 + v.len();
                }
            }
            n
        }
    }
}

pub fn value_lengths(key_len: usize, meta_shape: u8, thorough: bool) -> Vec<usize> {
    let h = 57 + key_len + meta_len(meta_shape);
    let t = 4096usize.saturating_sub(h);
    let mut v: BTreeSet<usize> = BTreeSet::new();
    v.extend([0, 1, 2, 3, 4095, 4096, 4097, 81_919, 81_920, 81_921]);
    for d in 0..=4usize {
        v.insert((t + d).saturating_sub(2));
        v.insert((81_920 + d).saturating_sub(h + 2));
    }
    v.insert(200_000);
    if thorough {
        v.insert(1_000_000);
        for d in 0..=8usize {
            v.insert((t + d).saturating_sub(4));
        }
    }
    v.into_iter().collect()
}

async fn roundtrip_task<K: HKey>(mode_name: String, meta_shape_id: u8, lengths: Vec<usize>) -> (usize, Vec<Finding>) {
    let mut fs = Vec::new();
    let dir = world::fresh_dir();
    let mut cfg = WCfg::default();
    cfg.bloom = world::BloomCfg::Bits(256);
    let mut w: World<K> = match World::open(dir.clone(), cfg, false).await {
        Ok(w) => w,
        Err(e) => return (0, vec![finding("machinery", format!("{e:#}"))]),
    };
    ctl::quiesce().await;
    let meta = meta_shape(meta_shape_id);
    let mut expected: Vec<(u8, Vec<u8>)> = Vec::new();
    for (i, len) in lengths.iter().enumerate() {
        let kid = i as u8;
        let val = value_bytes(&format!("rt{i}L{len}"), *len);
        let key: K = make_key(kid);
        let ts = BlobRecordTimestamp::new(100 + i as u64);
        let r = match &meta {
            None => w.s().write(&key, Bytes::from(val.clone()), ts).await,
            Some(m) => w.s().write_with(&key, Bytes::from(val.clone()), ts, m.clone()).await,
        };
        if let Err(e) = r {
            fs.push(finding("write", format!("{mode_name}: write of {len} bytes failed: {e:#}")));
        }
        expected.push((kid, val));
    }
    ctl::quiesce().await;
    let mut checks = 0usize;
    // a deletion marker (a record without data) among the values
    let marker_key: K = make_key(250);
    if let Err(e) = w.s().delete(&marker_key, BlobRecordTimestamp::new(90), false).await {
        fs.push(finding("write", format!("{mode_name}: delete failed: {e:#}")));
    }
    ctl::quiesce().await;
    for phase in ["in-memory index", "on-disk index", "regenerated index", "regenerated index, data validated at start-up"] {
        match phase {
            "on-disk index" => {
                let _ = w.apply(Op::Rot).await;
                ctl::quiesce().await;
            }
            "regenerated index" | "regenerated index, data validated at start-up" => {
                w.cfg.validate_data = phase != "regenerated index";
                if let Err(e) = w.close().await {
                    fs.push(finding("close", format!("{e:#}")));
                }
                for (n, _) in world::dir_listing(&dir) {
                    if n.ends_with(".index") {
                        let _ = std::fs::remove_file(dir.join(n));
                    }
                }
                if let Err(e) = w.init(false).await {
                    fs.push(finding("init", format!("{e:#}")));
                    break;
                }
                ctl::quiesce().await;
                if w.s().corrupted_blobs_count() != 0 {
                    fs.push(finding("quarantine", format!("{mode_name}, meta shape {meta_shape_id}, {phase}: {} intact blob(s) quarantined at start-up", w.s().corrupted_blobs_count())));
                }
            }
            _ => {}
        }
        for (kid, val) in &expected {
            checks += 1;
            let key: K = make_key(*kid);
            let what = format!("{mode_name}, meta shape {meta_shape_id}, {} bytes, {phase}", val.len());
            match w.s().read(&key).await {
                Ok(ReadResult::Found(b)) if b[..] == val[..] => {}
                Ok(ReadResult::Found(b)) => fs.push(finding("read_bytes", format!("{what}: read returned {} bytes that differ from what was written", b.len()))),
                other => fs.push(finding("read", format!("{what}: read returned {:?}", other.map(|r| r.map(|b| b.len()))))),
            }
            if let Some(m) = &meta {
                match w.s().read_with(&key, m).await {
                    Ok(ReadResult::Found(b)) if b[..] == val[..] => {}
                    other => fs.push(finding("read_with", format!("{what}: read_with returned {:?}", other.map(|r| r.map(|b| b.len()))))),
                }
            }
            match w.s().read_all(&key).await {
                Ok(entries) if entries.len() == 1 => {
                    let mut e = entries.into_iter().next().unwrap();
                    match e.load_data().await {
                        Ok(d) if d[..] == val[..] => {}
                        other => fs.push(finding("load_data", format!("{what}: load_data returned {:?}", other.map(|d| d.len())))),
                    }
                    let want_meta = meta.clone().unwrap_or_default();
                    match e.load_meta().await {
                        Ok(Some(m)) if *m == want_meta => {}
                        other => fs.push(finding("load_meta", format!("{what}: load_meta returned {:?}", other.map(|m| m.cloned())))),
                    }
                    match e.load().await {
                        Ok(rec) => {
                            if *rec.meta() != want_meta {
                                fs.push(finding("load_meta", format!("{what}: Entry::load returned other metadata")));
                            }
                            if rec.into_data()[..] != val[..] {
                                fs.push(finding("load_bytes", format!("{what}: Entry::load returned other bytes")));
                            }
                        }
                        Err(e) => fs.push(finding("load", format!("{what}: Entry::load failed: {e:#}"))),
                    }
                }
                other => fs.push(finding("read_all", format!("{what}: read_all returned {:?}", other.map(|e| e.len())))),
            }
            if fs.len() > 8 {
                break;
            }
        }
    }
    let _ = w.close().await;
    world::remove_dir(&dir);
    (checks, fs)
}

// ---------------------------------------------------------------------------------------------
// Corruption
// ---------------------------------------------------------------------------------------------

#[derive(Debug, Clone, Copy, PartialEq, Eq, Hash, serde::Serialize)]
pub enum Pattern {
    Xor1(u8),
    Xor2,
    Xor4,
    Sparse32,
    /// two single-bit flips inside one 32-bit window: (bit a, bit b) relative to the position
    TwoBits(u8, u8),
}

fn apply_pattern(buf: &mut [u8], pos: usize, p: Pattern) -> bool {
    let xor = |buf: &mut [u8], bytes: &[u8]| -> bool {
        if pos + bytes.len() > buf.len() {
            return false;
        }
        for (i, b) in bytes.iter().enumerate() {
            buf[pos + i] ^= *b;
        }
        true
    };
    match p {
        Pattern::Xor1(m) => xor(buf, &[m]),
        Pattern::Xor2 => xor(buf, &[0xff, 0xff]),
        Pattern::Xor4 => xor(buf, &[0xff, 0xff, 0xff, 0xff]),
        Pattern::Sparse32 => xor(buf, &[0x01, 0, 0, 0x80]),
        Pattern::TwoBits(a, b) => {
            let mut m = [0u8; 4];
            m[(a / 8) as usize] |= 1 << (a % 8);
            m[(b / 8) as usize] |= 1 << (b % 8);
            xor(buf, &m)
        }
    }
}

fn patterns(small_record: bool) -> Vec<Pattern> {
    let mut v = vec![Pattern::Xor1(0x01), Pattern::Xor1(0x80), Pattern::Xor1(0xff), Pattern::Xor2, Pattern::Xor4, Pattern::Sparse32];
    if small_record {
        for bit in 1..7u8 {
            v.push(Pattern::Xor1(1 << bit));
        }
        for a in 0..32u8 {
            for b in (a + 1)..32u8 {
                v.push(Pattern::TwoBits(a, b));
            }
        }
    }
    v
}

fn positions(data_len: usize, thorough: bool) -> Vec<usize> {
    let mut v: BTreeSet<usize> = BTreeSet::new();
    if thorough || data_len <= 4096 {
        v.extend(0..data_len);
    } else {
        v.extend(0..4096);
        v.extend((4096..data_len).step_by(64));
        let mut p = 4096;
        while p < data_len {
            v.extend([p - 1, p]);
            p += 4096;
        }
        v.extend(data_len.saturating_sub(16)..data_len);
    }
    v.into_iter().collect()
}

fn patch_file(path: &Path, offset: u64, bytes: &[u8]) {
    let mut f = std::fs::OpenOptions::new().write(true).open(path).expect("open blob for patching");
    f.seek(SeekFrom::Start(offset)).unwrap();
    f.write_all(bytes).unwrap();
}

fn read_file_range(path: &Path, offset: u64, len: usize) -> Vec<u8> {
    let mut f = std::fs::File::open(path).unwrap();
    f.seek(SeekFrom::Start(offset)).unwrap();
    let mut b = vec![0; len];
    f.read_exact(&mut b).unwrap();
    b
}

#[derive(Debug, Clone, serde::Serialize)]
pub struct CorruptSpec {
    pub name: String,
    pub value_len: usize,
    #[serde(skip)]
    pub io_mode: IoMode,
    pub io: String,
    pub thorough: bool,
    /// slice i of n of the position list (parallelism)
    pub slice: (usize, usize),
}

/// The record under test is key 0; key 1 is a bystander that must stay readable.
async fn corrupt_task(spec: CorruptSpec) -> (usize, usize, Vec<Finding>) {
    let mut fs = Vec::new();
    let dir = world::fresh_dir();
    let mut cfg = WCfg::default();
    cfg.bloom = world::BloomCfg::Bits(256);
    let mut w: World<ArrayKey<4>> = match World::open(dir.clone(), cfg.clone(), false).await {
        Ok(w) => w,
        Err(e) => return (0, 0, vec![finding("machinery", format!("{e:#}"))]),
    };
    ctl::quiesce().await;
    let val = value_bytes("victim", spec.value_len);
    let key: ArrayKey<4> = make_key(0);
    let key1: ArrayKey<4> = make_key(1);
    w.s().write(&key1, Bytes::from(value_bytes("bystander", 40)), BlobRecordTimestamp::new(1)).await.expect("write");
    // the victim carries metadata so that the metadata-driven read paths are exercised too
    let vmeta = meta_shape(1).unwrap();
    w.s().write_with(&key, Bytes::from(val.clone()), BlobRecordTimestamp::new(2), vmeta.clone()).await.expect("write");
    ctl::quiesce().await;
    let blob = dir.join("t.0.blob");
    let parsed = blobfile::parse(&std::fs::read(&blob).unwrap(), 4);
    let rec = match parsed.records.iter().find(|r| r.key == world::key_bytes(0, 4)) {
        Some(r) => r.clone(),
        None => return (0, 0, vec![finding("machinery", "victim record not found in the blob".to_string())]),
    };
    let d0 = rec.data_offset();
    let pats = patterns(spec.value_len <= 64);
    let all_pos = positions(spec.value_len, spec.thorough);
    let my_pos: Vec<usize> = all_pos.iter().cloned().enumerate().filter(|(i, _)| i % spec.slice.1 == spec.slice.0).map(|(_, p)| p).collect();
    let mut cases = 0usize;
    let mut detected = 0usize;
    for phase in ["in-memory index", "on-disk index"] {
        if phase == "on-disk index" {
            let _ = w.apply(Op::Rot).await;
            ctl::quiesce().await;
        }
        for &pos in &my_pos {
            // on-disk phase: thinner sweep (same code path below the index)
            if phase == "on-disk index" && !spec.thorough && pos % 5 != 0 {
                continue;
            }
            for &p in &pats {
                let mut damaged = val.clone();
                if !apply_pattern(&mut damaged, pos, p) {
                    continue;
                }
                cases += 1;
                let span = 4.min(spec.value_len - pos);
                let orig = read_file_range(&blob, d0 + pos as u64, span);
                patch_file(&blob, d0 + pos as u64, &damaged[pos..pos + span]);
                // every way of reading the record
                let r = w.s().read(&key).await;
                match r {
                    Err(_) => detected += 1,
                    Ok(ReadResult::Found(b)) if b[..] == val[..] => fs.push(finding("machinery", format!("corruption at {pos} {p:?} did not reach the file"))),
                    Ok(ReadResult::Found(_)) => fs.push(finding(
                        "corrupt_read_ok",
                        format!("{}, {phase}: data byte {pos} altered with {p:?}: read returned Ok with altered bytes", spec.name),
                    )),
                    Ok(other) => fs.push(finding("corrupt_read_other", format!("{}: read returned {:?}", spec.name, other.map(|b| b.len())))),
                }
                match w.s().read_with(&key, &vmeta).await {
                    Ok(ReadResult::Found(b)) if b[..] != val[..] => fs.push(finding(
                        "corrupt_read_with_ok",
                        format!("{}, {phase}: data byte {pos} altered with {p:?}: read_with returned Ok with altered bytes", spec.name),
                    )),
                    _ => {}
                }
                if let Ok(entries) = w.s().read_all(&key).await {
                    for e in entries {
                        if let Ok(d) = e.load_data().await {
                            if d[..] != val[..] {
                                fs.push(finding("corrupt_load_data_ok", format!("{}, {phase}: data byte {pos} altered with {p:?}: Entry::load_data returned Ok with altered bytes", spec.name)));
                            }
                        }
                        if let Ok(rec) = e.load().await {
                            if rec.into_data()[..] != val[..] {
                                fs.push(finding("corrupt_load_ok", format!("{}, {phase}: data byte {pos} altered with {p:?}: Entry::load returned Ok with altered bytes", spec.name)));
                            }
                        }
                    }
                }
                // metadata first, then the whole record through the same entry
                if let Ok(entries) = w.s().read_all(&key).await {
                    for mut e in entries {
                        let _ = e.load_meta().await;
                        if let Ok(rec) = e.load().await {
                            if rec.into_data()[..] != val[..] {
                                fs.push(finding("corrupt_load_after_meta_ok", format!("{}, {phase}: data byte {pos} altered with {p:?}: load_meta + Entry::load returned Ok with altered bytes", spec.name)));
                            }
                        }
                    }
                }
                patch_file(&blob, d0 + pos as u64, &orig);
                if fs.len() > 6 {
                    break;
                }
            }
            if fs.len() > 6 {
                break;
            }
        }
        // the bystander and the restored victim read back
        match w.s().read(&key).await {
            Ok(ReadResult::Found(b)) if b[..] == val[..] => {}
            other => fs.push(finding("machinery", format!("victim not restored: {:?}", other.map(|r| r.map(|b| b.len()))))),
        }
        if !matches!(w.s().read(&key1).await, Ok(ReadResult::Found(_))) {
            fs.push(finding("bystander", "bystander record unreadable".to_string()));
        }
    }
    let _ = w.close().await;
    // between sessions: regenerated index, validation on and off (slice 0 only, thin sweep)
    if spec.slice.0 == 0 {
        let step = if spec.thorough { 13 } else { 97 };
        let mut ps: Vec<usize> = (0..spec.value_len).step_by(step).collect();
        ps.extend(spec.value_len.saturating_sub(4)..spec.value_len);
        for pos in ps {
            for p in [Pattern::Xor1(0x01), Pattern::Xor4, Pattern::Sparse32] {
                let mut damaged = val.clone();
                if !apply_pattern(&mut damaged, pos, p) {
                    continue;
                }
                for validate in [false, true] {
                    cases += 1;
                    let copy = world::fresh_dir();
                    for (n, _) in world::dir_listing(&dir) {
                        if n.ends_with(".blob") {
                            std::fs::copy(dir.join(&n), copy.join(&n)).unwrap();
                        }
                    }
                    // after the rotation the victim sits in blob 0
                    let span = 4.min(spec.value_len - pos);
                    patch_file(&copy.join("t.0.blob"), d0 + pos as u64, &damaged[pos..pos + span]);
                    let mut c2 = cfg.clone();
                    c2.validate_data = validate;
                    match World::<ArrayKey<4>>::open(copy.clone(), c2, false).await {
                        Err(e) => fs.push(finding("corrupt_init", format!("{}: init with a damaged data byte failed: {e:#}", spec.name))),
                        Ok(mut w2) => {
                            ctl::quiesce().await;
                            match w2.s().read(&key).await {
                                Err(_) => detected += 1,
                                Ok(ReadResult::NotFound) if w2.s().corrupted_blobs_count() > 0 => detected += 1,
                                Ok(ReadResult::Found(b)) if b[..] != val[..] => fs.push(finding(
                                    "corrupt_read_ok_after_restart",
                                    format!("{}: data byte {pos} altered with {p:?} between sessions (validate_data={validate}): read returned Ok with altered bytes", spec.name),
                                )),
                                other => fs.push(finding("corrupt_after_restart", format!("{}: validate_data={validate}: read returned {:?}, quarantined {}", spec.name, other.map(|r| r.map(|b| b.len())), w2.s().corrupted_blobs_count()))),
                            }
                            if validate && w2.s().corrupted_blobs_count() == 0 {
                                fs.push(finding("corrupt_not_quarantined", format!("{}: data validation on, damaged blob was not quarantined (byte {pos}, {p:?})", spec.name)));
                            }
                            let _ = w2.close().await;
                        }
                    }
                    world::remove_dir(&copy);
                }
            }
            if fs.len() > 6 {
                break;
            }
        }
    }
    world::remove_dir(&dir);
    (cases, detected, fs)
}

#[derive(Debug, Default, Clone, serde::Serialize)]
pub struct BytesStats {
    pub roundtrip_configs: usize,
    pub roundtrip_checks: usize,
    pub corruption_cases: usize,
    pub corruptions_detected: usize,
    pub violations: usize,
    pub samples: Vec<String>,
}

enum Item {
    Rt { key_len: usize, mode: IoMode, meta: u8, lengths: Vec<usize> },
    Co(CorruptSpec),
}

pub fn run(thorough: bool, threads: usize) -> (BytesStats, Vec<(String, Vec<Finding>)>) {
    let mut items: Vec<Item> = Vec::new();
    for key_len in [4usize, 33] {
        for mode in [IoMode::Inplace, IoMode::Background] {
            for meta in 0..6u8 {
                items.push(Item::Rt { key_len, mode, meta, lengths: value_lengths(key_len, meta, thorough) });
            }
        }
    }
    for (name, len, mode) in [
        ("tiny single-buffer record", 24usize, IoMode::Inplace),
        ("single-buffer record", 900, IoMode::Inplace),
        ("two-buffer record written in place", 5 * 1024, IoMode::Inplace),
        ("two-buffer record written by a background job", 90 * 1024, IoMode::Background),
    ] {
        let slices = if len > 4096 { 16 } else { 4 };
        for i in 0..slices {
            items.push(Item::Co(CorruptSpec { name: name.to_string(), value_len: len, io_mode: mode, io: format!("{mode:?}"), thorough, slice: (i, slices) }));
        }
    }
    let next = AtomicUsize::new(0);
    let results: Mutex<Vec<(usize, String, usize, usize, Vec<Finding>)>> = Mutex::new(Vec::new());
    std::thread::scope(|sc| {
        for _ in 0..threads.max(1) {
            sc.spawn(|| loop {
                let i = next.fetch_add(1, Ordering::Relaxed);
                if i >= items.len() {
                    break;
                }
                let mut cfg = CtlConfig::sequential(IoMode::Inplace);
                cfg.auto_clock = None;
                match &items[i] {
                    Item::Rt { key_len, mode, meta, lengths } => {
                        cfg.io_mode = *mode;
                        let name = format!("round trip key_len={key_len} io={mode:?} meta_shape={meta}");
                        let (n2, m2, l2) = (name.clone(), *meta, lengths.clone());
                        let exec = if *key_len == 4 {
                            ctl::execute(cfg, &[], None, move || roundtrip_task::<ArrayKey<4>>(n2, m2, l2))
                        } else {
                            ctl::execute(cfg, &[], None, move || roundtrip_task::<ArrayKey<33>>(n2, m2, l2))
                        };
                        let (checks, fs) = exec.result.unwrap_or_else(|e| (0, vec![finding("panic", format!("{e}; {:?}", exec.ctl.panics.borrow()))]));
                        results.lock().unwrap().push((i, name, checks, 0, fs));
                    }
                    Item::Co(spec) => {
                        cfg.io_mode = spec.io_mode;
                        let s = spec.clone();
                        let exec = ctl::execute(cfg, &[], None, move || corrupt_task(s));
                        let (cases, det, fs) = exec.result.unwrap_or_else(|e| (0, 0, vec![finding("panic", format!("{e}; {:?}", exec.ctl.panics.borrow()))]));
                        results.lock().unwrap().push((i, format!("corruption of a {} ({} bytes), slice {}/{}", spec.name, spec.value_len, spec.slice.0, spec.slice.1), cases, det, fs));
                    }
                }
            });
        }
    });
    let mut results = results.into_inner().unwrap();
    results.sort_by_key(|r| r.0);
    let mut stats = BytesStats::default();
    let mut violations = Vec::new();
    for (i, name, n, det, fs) in results {
        match &items[i] {
            Item::Rt { .. } => {
                stats.roundtrip_configs += 1;
                stats.roundtrip_checks += n;
            }
            Item::Co(_) => {
                stats.corruption_cases += n;
                stats.corruptions_detected += det;
            }
        }
        if stats.samples.len() < 4 && i % 9 == 2 {
            stats.samples.push(name.clone());
        }
        if !fs.is_empty() {
            stats.violations += 1;
            violations.push((name, fs));
        }
    }
    let _: Option<PathBuf> = None;
    (stats, violations)
}
