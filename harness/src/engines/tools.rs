//! C16: the offline tools over every truncation length and every byte flip of blobs produced by
//! small histories. The tools parse untrusted bytes with `bincode::deserialize_from`, which can
//! allocate according to a damaged length prefix, so the sweep runs in child processes under an
//! address-space limit; a child that dies is a finding for the case it was working on.

use std::collections::{BTreeMap, BTreeSet, HashMap};
use std::io::{BufRead, Write};
use std::path::{Path, PathBuf};
use std::sync::atomic::{AtomicUsize, Ordering};
use std::sync::Mutex;

use pearl::{ArrayKey, ReadResult};
use serde::{Deserialize, Serialize};

use crate::blobfile::{self, RecInfo};
use crate::ctl::{self, CtlConfig, IoMode};
use crate::oracle::{finding, Finding};
use crate::world::{self, Op, WCfg, World};

#[derive(Debug, Clone, Serialize, Deserialize, PartialEq, Eq, Hash)]
pub enum Damage {
    None,
    Truncate(usize),
    Flip { pos: usize, mask: u8 },
}

#[derive(Debug, Clone, Serialize, Deserialize)]
pub struct Case {
    pub id: usize,
    pub blob: PathBuf,
    pub index: Option<PathBuf>,
    pub key_len: usize,
    pub damage: Damage,
}

/// (key, ts, deleted, data tag) of a record
type RecId = (Vec<u8>, u64, bool, String);

#[derive(Debug, Clone, Serialize, Deserialize, Default)]
pub struct ToolRun {
    pub ok: bool,
    pub err: String,
    pub out_validates: Option<bool>,
    pub out_records: Vec<RecId>,
    /// records of the output that the storage did not serve with their bytes
    pub storage_misses: Vec<String>,
    pub storage_err: String,
}

#[derive(Debug, Clone, Serialize, Deserialize, Default)]
pub struct CaseResult {
    pub id: usize,
    pub validate_ok: bool,
    pub validate_err: String,
    pub recovery: ToolRun,
    pub recovery_skip: ToolRun,
    /// recovery without re-validation of written records (`validate_every` = 0)
    #[serde(default)]
    pub recovery_v0: ToolRun,
    pub move_recover: ToolRun,
    pub migrate: ToolRun,
    pub summary_records: Option<(usize, usize)>,
}

fn rec_id(bytes: &[u8], r: &RecInfo) -> RecId {
    let d0 = r.data_offset() as usize;
    let tag = if r.deleted { String::new() } else { world::value_tag(&bytes[d0..d0 + r.data_len as usize]) };
    (r.key.clone(), r.ts, r.deleted, tag)
}

fn apply_damage(orig: &[u8], d: &Damage) -> Vec<u8> {
    let mut b = orig.to_vec();
    match d {
        Damage::None => {}
        Damage::Truncate(n) => b.truncate(*n),
        Damage::Flip { pos, mask } => b[*pos] ^= *mask,
    }
    b
}

// ---------------------------------------------------------------------------------------------
// Child side
// ---------------------------------------------------------------------------------------------

async fn storage_check<const L: usize>(dir: PathBuf, want: Vec<(Vec<u8>, u64, bool, Vec<u8>)>) -> (Vec<String>, String)
where
    ArrayKey<L>: world::HKey,
{
    let mut misses = Vec::new();
    let cfg = WCfg::default();
    let mut s: pearl::Storage<ArrayKey<L>> = match world::builder(&dir, &cfg).build() {
        Ok(s) => s,
        Err(e) => return (misses, format!("build: {e:#}")),
    };
    if let Err(e) = s.init().await {
        return (misses, format!("init on the tool's output failed: {e:#}"));
    }
    if s.corrupted_blobs_count() > 0 {
        let _ = s.close().await;
        return (misses, "the storage quarantined the tool's output".to_string());
    }
    // expected list per key from the records of the (single) blob: timestamp descending, then
    // append position descending, cut after the first deletion marker
    let mut keys: Vec<Vec<u8>> = want.iter().map(|w| w.0.clone()).collect();
    keys.sort();
    keys.dedup();
    for key in keys {
        let mut recs: Vec<(u64, usize, bool, &Vec<u8>)> = want.iter().enumerate().filter(|(_, w)| w.0 == key).map(|(i, w)| (w.1, i, w.2, &w.3)).collect();
        recs.sort_by(|a, b| (b.0, b.1).cmp(&(a.0, a.1)));
        let mut expect: Vec<(u64, bool, Vec<u8>)> = Vec::new();
        for r in recs {
            expect.push((r.0, r.2, r.3.clone()));
            if r.2 {
                break;
            }
        }
        let k: ArrayKey<L> = key.clone().into();
        match s.read_all_with_deletion_marker(&k).await {
            Err(e) => misses.push(format!("key {key:?}: {e:#}")),
            Ok(entries) => {
                let mut got: Vec<(u64, bool, Vec<u8>)> = Vec::new();
                for e in entries {
                    let ets: u64 = e.timestamp().into();
                    let del = e.is_deleted();
                    match e.load().await {
                        Ok(rec) => got.push((ets, del, rec.into_data().to_vec())),
                        Err(er) => misses.push(format!("key {key:?} ts {ets}: {er:#}")),
                    }
                }
                if got != expect {
                    misses.push(format!(
                        "key {key:?}: served {:?}, the blob holds {:?}",
                        got.iter().map(|g| (g.0, g.1, g.2.len())).collect::<Vec<_>>(),
                        expect.iter().map(|g| (g.0, g.1, g.2.len())).collect::<Vec<_>>()
                    ));
                }
            }
        }
    }
    let _ = s.close().await;
    (misses, String::new())
}

fn run_storage_check(key_len: usize, dir: &Path, bytes: &[u8], recs: &[RecInfo]) -> (Vec<String>, String) {
    let want: Vec<(Vec<u8>, u64, bool, Vec<u8>)> = recs
        .iter()
        .map(|r| {
            let d0 = r.data_offset() as usize;
            (r.key.clone(), r.ts, r.deleted, bytes[d0..d0 + r.data_len as usize].to_vec())
        })
        .collect();
    let rt = tokio::runtime::Builder::new_multi_thread().worker_threads(1).enable_all().build().expect("runtime");
    let d = dir.to_path_buf();
    match key_len {
        4 => rt.block_on(storage_check::<4>(d, want)),
        8 => rt.block_on(storage_check::<8>(d, want)),
        n => (vec![], format!("unsupported key length {n}")),
    }
}

fn describe_output(key_len: usize, out: &Path, storage: bool, cache: &mut HashMap<Vec<u8>, (Vec<String>, String)>) -> (Option<bool>, Vec<RecId>, Vec<String>, String) {
    let bytes = match std::fs::read(out) {
        Ok(b) => b,
        Err(_) => return (None, vec![], vec![], String::new()),
    };
    let validates = pearl::tools::validate_blob(out).is_ok();
    let parsed = blobfile::parse(&bytes, key_len);
    let recs: Vec<RecId> = parsed.records.iter().map(|r| rec_id(&bytes, r)).collect();
    let (misses, serr) = if storage && !parsed.records.is_empty() {
        if let Some(c) = cache.get(&bytes) {
            c.clone()
        } else {
            // the storage wants <prefix>.<id>.blob in a directory of its own
            let dir = out.parent().unwrap().join("st");
            let _ = std::fs::remove_dir_all(&dir);
            std::fs::create_dir_all(&dir).unwrap();
            std::fs::copy(out, dir.join("t.0.blob")).unwrap();
            let r = run_storage_check(key_len, &dir, &bytes, &parsed.records);
            let _ = std::fs::remove_dir_all(&dir);
            cache.insert(bytes.clone(), r.clone());
            r
        }
    } else {
        (vec![], String::new())
    };
    (Some(validates), recs, misses, serr)
}

fn tool_run(key_len: usize, out: &Path, storage: bool, cache: &mut HashMap<Vec<u8>, (Vec<String>, String)>, f: impl FnOnce() -> anyhow::Result<()>) -> ToolRun {
    if !out.to_string_lossy().contains("mv.0.blob") {
        let _ = std::fs::remove_file(out);
    }
    let res = std::panic::catch_unwind(std::panic::AssertUnwindSafe(f));
    let (ok, err) = match res {
        Ok(Ok(())) => (true, String::new()),
        Ok(Err(e)) => (false, format!("{e:#}")),
        Err(_) => (false, "PANIC".to_string()),
    };
    let (v, recs, misses, serr) = describe_output(key_len, out, storage, cache);
    ToolRun { ok, err, out_validates: v, out_records: recs, storage_misses: misses, storage_err: serr }
}

/// Child entry point: processes the cases of `jobs` (JSON lines) and appends results to `results`.
pub fn worker(jobs: &Path, results: &Path) -> i32 {
    // address-space limit: a damaged length prefix must fail fast instead of eating the machine
    unsafe {
        let lim = libc::rlimit { rlim_cur: 3 << 30, rlim_max: 3 << 30 };
        libc::setrlimit(libc::RLIMIT_AS, &lim);
    }
    let scratch = world::fresh_dir();
    let mut out = std::fs::OpenOptions::new().create(true).append(true).open(results).expect("results file");
    let mut originals: HashMap<PathBuf, Vec<u8>> = HashMap::new();
    let mut cache: HashMap<Vec<u8>, (Vec<String>, String)> = HashMap::new();
    let f = std::fs::File::open(jobs).expect("jobs");
    for line in std::io::BufReader::new(f).lines() {
        let line = line.unwrap();
        let case: Case = match serde_json::from_str(&line) {
            Ok(c) => c,
            Err(_) => continue,
        };
        writeln!(out, "BEGIN {}", case.id).unwrap();
        out.flush().unwrap();
        let orig = originals.entry(case.blob.clone()).or_insert_with(|| std::fs::read(&case.blob).expect("blob")).clone();
        let damaged = apply_damage(&orig, &case.damage);
        let input = scratch.join("in.0.blob");
        std::fs::write(&input, &damaged).unwrap();
        let mut r = CaseResult { id: case.id, ..Default::default() };
        match std::panic::catch_unwind(|| pearl::tools::validate_blob(&input)) {
            Ok(Ok(())) => r.validate_ok = true,
            Ok(Err(e)) => r.validate_err = format!("{e:#}"),
            Err(_) => r.validate_err = "PANIC".into(),
        }
        let outp = scratch.join("out.0.blob");
        let (i2, o2) = (input.clone(), outp.clone());
        r.recovery = tool_run(case.key_len, &outp, true, &mut cache, || pearl::tools::recovery_blob(&i2, &o2, 1, false));
        let (i2, o2) = (input.clone(), outp.clone());
        r.recovery_skip = tool_run(case.key_len, &outp, true, &mut cache, || pearl::tools::recovery_blob(&i2, &o2, 2, true));
        let (i2, o2) = (input.clone(), outp.clone());
        // ... into an output path that already holds a longer file (a re-run of the tool into the
        // same file): the result is the same as into a fresh path
        r.recovery_v0 = tool_run(case.key_len, &outp, true, &mut cache, || {
            std::fs::write(&o2, vec![0xabu8; damaged.len() + 4096 + 17])?;
            pearl::tools::recovery_blob(&i2, &o2, 0, false)
        });
        let (i2, o2) = (input.clone(), outp.clone());
        r.migrate = tool_run(case.key_len, &outp, false, &mut cache, || pearl::tools::migrate_blob(&i2, &o2, 0, 1));
        // move_and_recover works in place: run it on a copy
        let inplace = scratch.join("mv.0.blob");
        let backup = scratch.join("mv.0.blob.bak");
        std::fs::write(&inplace, &damaged).unwrap();
        let _ = std::fs::remove_file(&backup);
        let (i2, b2) = (inplace.clone(), backup.clone());
        r.move_recover = tool_run(case.key_len, &inplace, false, &mut cache, || pearl::tools::move_and_recover_blob(&i2, &b2, 1));
        if let Ok(b) = std::fs::read(&backup) {
            if b != damaged {
                r.move_recover.err = format!("{} BACKUP-DIFFERS", r.move_recover.err);
            }
        } else if r.move_recover.ok {
            r.move_recover.err = "NO-BACKUP".into();
        }
        if case.damage == Damage::None {
            if let Ok(c) = pearl::tools::BlobSummaryCollector::from_path(&input, true) {
                r.summary_records = Some((c.records(), c.deleted_records()));
            }
        }
        writeln!(out, "END {}", serde_json::to_string(&r).unwrap()).unwrap();
        out.flush().unwrap();
    }
    world::remove_dir(&scratch);
    0
}

// ---------------------------------------------------------------------------------------------
// Parent side
// ---------------------------------------------------------------------------------------------

#[derive(Debug, Clone, serde::Serialize)]
pub struct BlobCase {
    pub name: String,
    pub key_len: usize,
    pub history: Vec<String>,
    #[serde(skip)]
    pub blob: PathBuf,
    #[serde(skip)]
    pub index: PathBuf,
}

async fn gen_task<const L: usize>(history: Vec<Op>, dir: PathBuf) -> anyhow::Result<()>
where
    ArrayKey<L>: world::HKey,
{
    let mut w: World<ArrayKey<L>> = World::open(dir, WCfg::default(), false).await?;
    ctl::quiesce().await;
    for op in history {
        let _ = w.apply(op).await;
        ctl::quiesce().await;
    }
    w.close().await
}

pub fn generate(root: &Path, thorough: bool) -> Vec<BlobCase> {
    let w = |k, ts, meta, size| Op::Write { k, ts, meta, size };
    let d = |k, ts, meta| Op::Delete { k, ts, oip: false, meta };
    let mut hs: Vec<(&str, usize, Vec<Op>)> = vec![
        ("three-small", 4, vec![w(0, 1, None, 24), w(1, 2, None, 40), w(2, 3, None, 16)]),
        ("meta-marker-5k", 4, vec![w(0, 1, Some(1), 30), w(1, 2, None, 5 * 1024), d(0, 3, 0), w(2, 4, Some(2), 10), d(1, 5, 1)]),
        ("key8-four", 8, vec![w(0, 1, None, 12), w(1, 1, Some(1), 0), w(2, 2, None, 33), w(0, 5, None, 7)]),
    ];
    hs.extend([
        ("single", 4, vec![w(0, 1, None, 24)]),
        ("empty-values", 4, vec![w(0, 1, None, 0), w(1, 2, None, 0), w(2, 3, None, 1)]),
        ("same-key-versions", 4, vec![w(0, 1, None, 20), w(0, 2, None, 21), w(0, 3, None, 22), w(0, 3, None, 23), d(0, 2, 0)]),
        ("markers-only", 4, vec![d(0, 1, 0), d(1, 2, 1), d(0, 3, 0)]),
        ("big-meta", 4, vec![w(0, 1, Some(5), 24), w(1, 2, Some(7), 24), w(2, 3, None, 100)]),
        ("key8-meta-marker", 8, vec![w(0, 1, Some(2), 50), d(0, 2, 2), w(1, 3, None, 600), w(2, 4, Some(1), 3)]),
        ("ends-with-empty-value", 4, vec![w(0, 1, Some(1), 17), d(0, 2, 0), w(1, 3, None, 0)]),
    ]);
    if thorough {
        hs.extend([
            ("six-mixed", 4, vec![w(0, 1, None, 10), w(1, 2, Some(1), 300), d(0, 3, 0), w(2, 4, None, 2000), w(0, 5, Some(2), 5), d(2, 6, 0)]),
            ("two-5k", 4, vec![w(0, 1, None, 5 * 1024), w(1, 2, None, 4200)]),
            ("key8-single-5k", 8, vec![w(0, 1, Some(1), 5 * 1024)]),
            ("ten-records", 4, (0..10u8).map(|i| if i % 4 == 3 { d(i % 3, 10 + i as u64, 0) } else { w(i % 3, 10 + i as u64, if i % 2 == 0 { Some(1) } else { None }, 9 * i as u32) }).collect()),
        ]);
    }
    let mut out = Vec::new();
    for (name, key_len, h) in hs {
        let dir = root.join(name);
        let _ = std::fs::remove_dir_all(&dir);
        std::fs::create_dir_all(&dir).unwrap();
        let mut cfg = CtlConfig::sequential(IoMode::Inplace);
        cfg.auto_clock = None;
        let (h2, d2) = (h.clone(), dir.clone());
        let res = match key_len {
            4 => ctl::execute(cfg, &[], None, move || gen_task::<4>(h2, d2)).result,
            _ => ctl::execute(cfg, &[], None, move || gen_task::<8>(h2, d2)).result,
        };
        if !matches!(res, Ok(Ok(()))) {
            panic!("generation of {name} failed: {res:?}");
        }
        out.push(BlobCase {
            name: name.to_string(),
            key_len,
            history: h.iter().map(|o| o.short()).collect(),
            blob: dir.join("t.0.blob"),
            index: dir.join("t.0.index"),
        });
    }
    out
}

#[derive(Debug, Default, Clone, serde::Serialize)]
pub struct ToolsStats {
    pub blobs: usize,
    pub cases: usize,
    pub truncations: usize,
    pub flips: usize,
    pub by_position_class: BTreeMap<String, usize>,
    pub excluded_meta_content: usize,
    pub excluded_blob_header_unvalidated: usize,
    pub not_resyncable: usize,
    pub child_deaths: usize,
    pub index_checks: usize,
    pub violations: usize,
    pub violations_by_kind: BTreeMap<String, usize>,
    pub samples: Vec<String>,
}

fn position_class(orig: &[u8], key_len: usize, pos: usize) -> (&'static str, Option<usize>) {
    if pos < 8 {
        return ("blob header magic", None);
    }
    if pos < 20 {
        return ("blob header version/flags", None);
    }
    let p = blobfile::parse(orig, key_len);
    for (i, r) in p.records.iter().enumerate() {
        let o = r.offset as usize;
        if pos >= o && pos < r.end() as usize {
            let rel = pos - o;
            let hl = r.header_len as usize;
            let c = if rel < 8 {
                "record magic"
            } else if rel < 16 {
                "record key length prefix"
            } else if rel < 16 + key_len {
                "record key"
            } else if rel < 16 + key_len + 16 {
                "record meta/data size"
            } else if rel < hl {
                "record header other"
            } else if rel < hl + r.meta_len as usize {
                "record meta"
            } else {
                "record data"
            };
            return (c, Some(i));
        }
    }
    ("?", None)
}

fn judge_case(orig: &[u8], bc: &BlobCase, case: &Case, r: &CaseResult, stats: &mut ToolsStats) -> Vec<Finding> {
    let mut fs = Vec::new();
    let key_len = bc.key_len;
    let damaged = apply_damage(orig, &case.damage);
    let op = blobfile::parse(orig, key_len);
    let orig_ids: Vec<RecId> = op.records.iter().map(|x| rec_id(orig, x)).collect();
    let dp = blobfile::parse(&damaged, key_len);
    let well_formed = dp.header_ok && dp.problem.is_none() && dp.stopped_at == dp.len && dp.records.iter().all(|x| x.data_crc_ok && x.meta_ok);
    let (class, rec_idx) = match &case.damage {
        Damage::Flip { pos, .. } => position_class(orig, key_len, *pos),
        _ => ("", None),
    };
    // validation: accepts exactly the well-formed files
    let excluded = match class {
        "record meta" if well_formed => {
            // the flip changed metadata content only; nothing in the format can see that
            stats.excluded_meta_content += 1;
            true
        }
        "blob header version/flags" => {
            stats.excluded_blob_header_unvalidated += 1;
            true
        }
        _ => false,
    };
    if r.validate_err == "PANIC" {
        fs.push(finding("validate_panic", "validate_blob panicked".to_string()));
    } else if !excluded && r.validate_ok != well_formed {
        fs.push(finding(
            "validate",
            format!("validate_blob {} a file that is {} ({})", if r.validate_ok { "accepted" } else { "rejected" }, if well_formed { "well-formed" } else { "damaged" }, r.validate_err),
        ));
    }
    // what must come back
    let prefix: Vec<RecId> = dp.records.iter().take_while(|x| x.data_crc_ok && x.meta_ok).map(|x| rec_id(&damaged, x)).collect();
    let prefix: Vec<RecId> = prefix.into_iter().filter(|x| orig_ids.contains(x)).collect();
    let mut with_skip = prefix.clone();
    if let (Damage::Flip { .. }, Some(i)) = (&case.damage, rec_idx) {
        let resyncable = !matches!(class, "record key length prefix" | "record meta/data size");
        if resyncable {
            for x in orig_ids.iter().skip(i + 1) {
                if !with_skip.contains(x) {
                    with_skip.push(x.clone());
                }
            }
        } else {
            stats.not_resyncable += 1;
        }
    }
    let header_intact = damaged.len() >= 20 && damaged[..8] == orig[..8];
    let mut check = |name: &str, run: &ToolRun, must: &[RecId], storage: bool, fs: &mut Vec<Finding>| {
        if run.err.contains("PANIC") {
            fs.push(finding(&format!("{name}_panic"), format!("{name} panicked")));
            return;
        }
        if !header_intact {
            // nothing to recover from a blob whose own header is gone; the tool must fail cleanly
            if run.ok && !run.out_records.is_empty() {
                fs.push(finding(&format!("{name}_header"), format!("{name} produced records from a blob without a valid header")));
            }
            return;
        }
        if !run.ok {
            fs.push(finding(&format!("{name}_failed"), format!("{name} failed: {}", run.err)));
            return;
        }
        if run.out_validates != Some(true) {
            fs.push(finding(&format!("{name}_output_invalid"), format!("the output of {name} does not validate")));
        }
        for m in must {
            if !run.out_records.contains(m) {
                fs.push(finding(&format!("{name}_lost"), format!("{name} lost the intact record key {:?} ts {} ({})", m.0, m.1, m.3)));
                break;
            }
        }
        for o in &run.out_records {
            if !orig_ids.contains(o) {
                fs.push(finding(&format!("{name}_invented"), format!("{name} wrote a record that was not in the blob: key {:?} ts {}", o.0, o.1)));
                break;
            }
        }
        if storage {
            if !run.storage_err.is_empty() {
                fs.push(finding(&format!("{name}_storage"), format!("storage on the output of {name}: {}", run.storage_err)));
            } else if let Some(m) = run.storage_misses.first() {
                fs.push(finding(&format!("{name}_storage_read"), format!("storage on the output of {name}: {m}")));
            }
        }
    };
    check("recovery", &r.recovery, &prefix, true, &mut fs);
    check("recovery_skip", &r.recovery_skip, &with_skip, true, &mut fs);
    check("recovery_validate_every_0", &r.recovery_v0, &prefix, true, &mut fs);
    if class != "blob header version/flags" {
        // a changed version byte legitimately selects a migration (v0 -> v1 reverses the keys)
        check("migrate", &r.migrate, &prefix, false, &mut fs);
    }
    check("move_and_recover", &r.move_recover, &with_skip, false, &mut fs);
    if r.move_recover.err.contains("BACKUP-DIFFERS") || r.move_recover.err.contains("NO-BACKUP") {
        fs.push(finding("move_backup", format!("move_and_recover_blob: {}", r.move_recover.err)));
    }
    if case.damage == Damage::None {
        let puts = orig_ids.iter().filter(|x| !x.2).count();
        let dels = orig_ids.iter().filter(|x| x.2).count();
        if r.summary_records != Some((puts, dels)) {
            fs.push(finding("blob_summary", format!("BlobSummaryCollector reports {:?}, the blob holds {puts} puts and {dels} markers", r.summary_records)));
        }
    }
    if !class.is_empty() {
        *stats.by_position_class.entry(class.to_string()).or_insert(0) += 1;
    }
    fs
}

/// Index tools on the intact files (in process: trusted input).
fn index_checks(bc: &BlobCase, stats: &mut ToolsStats) -> Vec<Finding> {
    let mut fs = Vec::new();
    let bytes = std::fs::read(&bc.blob).unwrap_or_default();
    let parsed = blobfile::parse(&bytes, bc.key_len);
    stats.index_checks += 1;
    let v = match bc.key_len {
        4 => pearl::tools::validate_index::<ArrayKey<4>>(&bc.index),
        _ => pearl::tools::validate_index::<ArrayKey<8>>(&bc.index),
    };
    if let Err(e) = v {
        fs.push(finding("validate_index", format!("validate_index rejects the index the storage wrote: {e:#}")));
    }
    match pearl::tools::read_index_sync(&bc.index) {
        Err(e) => fs.push(finding("read_index", format!("read_index failed: {e:#}"))),
        Ok(map) => {
            let mut got: BTreeSet<(Vec<u8>, u64)> = BTreeSet::new();
            for (k, hs) in &map {
                for h in hs {
                    got.insert((k.clone(), h.blob_offset()));
                }
            }
            let want: BTreeSet<(Vec<u8>, u64)> = parsed.records.iter().map(|r| (r.key.clone(), r.offset)).collect();
            if got != want {
                fs.push(finding("read_index", format!("read_index reports {} headers, the blob holds {} (sets differ)", got.len(), want.len())));
            }
        }
    }
    match pearl::tools::IndexSummaryCollector::from_path(&bc.index) {
        Err(e) => fs.push(finding("index_summary", format!("{e:#}"))),
        Ok(c) => {
            let keys: BTreeSet<&Vec<u8>> = parsed.records.iter().map(|r| &r.key).collect();
            if c.records_readed() != parsed.records.len() || c.unique_keys_count() != keys.len() || c.header_records_count() != parsed.records.len() {
                fs.push(finding(
                    "index_summary",
                    format!("IndexSummaryCollector: {} records / {} keys / header says {}; the blob holds {} / {}", c.records_readed(), c.unique_keys_count(), c.header_records_count(), parsed.records.len(), keys.len()),
                ));
            }
        }
    }
    // damaged index files must be rejected by validate_index: every truncation, every byte flip
    let ibytes = std::fs::read(&bc.index).unwrap_or_default();
    let scratch = world::fresh_dir();
    let ip = scratch.join("t.0.index");
    std::fs::copy(&bc.blob, scratch.join("t.0.blob")).unwrap();
    let mut accepted_trunc = Vec::new();
    let mut accepted_flip = Vec::new();
    let validate = |p: &Path| -> bool {
        let r = std::panic::catch_unwind(|| match bc.key_len {
            4 => pearl::tools::validate_index::<ArrayKey<4>>(p),
            _ => pearl::tools::validate_index::<ArrayKey<8>>(p),
        });
        matches!(r, Ok(Ok(())))
    };
    for n in (0..ibytes.len()).step_by(3) {
        std::fs::write(&ip, &ibytes[..n]).unwrap();
        stats.index_checks += 1;
        if validate(&ip) {
            accepted_trunc.push(n);
        }
    }
    for pos in (0..ibytes.len()).step_by(2) {
        // the written bit and version share byte 72; flips there are header changes like any other
        let mut b = ibytes.clone();
        b[pos] ^= 0x01;
        std::fs::write(&ip, &b).unwrap();
        stats.index_checks += 1;
        if validate(&ip) {
            accepted_flip.push(pos);
        }
    }
    world::remove_dir(&scratch);
    if !accepted_trunc.is_empty() {
        fs.push(finding("validate_index_truncated", format!("validate_index accepts the index truncated to {:?} bytes (of {})", &accepted_trunc[..accepted_trunc.len().min(8)], ibytes.len())));
    }
    if !accepted_flip.is_empty() {
        fs.push(finding("validate_index_flipped", format!("validate_index accepts the index with a flipped bit at {:?}", &accepted_flip[..accepted_flip.len().min(8)])));
    }
    fs
}

fn spawn_worker(jobs: &Path, results: &Path) -> std::process::ExitStatus {
    let exe = std::env::current_exe().expect("exe");
    std::process::Command::new(exe)
        .arg("tools-worker")
        .arg(jobs)
        .arg(results)
        .stdout(std::process::Stdio::null())
        .stderr(std::process::Stdio::null())
        .status()
        .expect("spawn tools worker")
}

pub fn run(thorough: bool, threads: usize) -> (ToolsStats, Vec<(String, Damage, Vec<Finding>)>) {
    let root = world::scratch_root().join("tools");
    let _ = std::fs::create_dir_all(&root);
    let blobs = generate(&root, thorough);
    let mut stats = ToolsStats { blobs: blobs.len(), ..Default::default() };
    let mut violations: Vec<(String, Damage, Vec<Finding>)> = Vec::new();
    let mut cases: Vec<(usize, Case)> = Vec::new();
    for (bi, bc) in blobs.iter().enumerate() {
        for f in index_checks(bc, &mut stats) {
            *stats.violations_by_kind.entry(f.kind.clone()).or_insert(0) += 1;
            stats.violations += 1;
            violations.push((bc.name.clone(), Damage::None, vec![f]));
        }
        let orig = std::fs::read(&bc.blob).expect("generated blob");
        let mk = |d: Damage, cases: &mut Vec<(usize, Case)>| {
            let id = cases.len();
            cases.push((bi, Case { id, blob: bc.blob.clone(), index: Some(bc.index.clone()), key_len: bc.key_len, damage: d }));
        };
        mk(Damage::None, &mut cases);
        let big = orig.len() > 3000;
        for n in 1..orig.len() {
            // a 5 KiB data region: every length near record boundaries and headers, every 16th inside
            if !thorough && big && n % 16 != 0 && !near_structure(&orig, bc.key_len, n) {
                continue;
            }
            stats.truncations += 1;
            mk(Damage::Truncate(n), &mut cases);
        }
        for pos in 0..orig.len() {
            if big && pos % (if thorough { 4 } else { 32 }) != 0 && !near_structure(&orig, bc.key_len, pos) {
                continue;
            }
            for mask in [0x01u8, 0xff] {
                stats.flips += 1;
                mk(Damage::Flip { pos, mask }, &mut cases);
            }
        }
    }
    stats.cases = cases.len();
    // shard over child processes
    let shards = threads.max(1) * 2;
    let next = AtomicUsize::new(0);
    let all_results: Mutex<HashMap<usize, Result<CaseResult, String>>> = Mutex::new(HashMap::new());
    let deaths = AtomicUsize::new(0);
    std::thread::scope(|sc| {
        for _ in 0..threads.max(1) {
            sc.spawn(|| loop {
                let s = next.fetch_add(1, Ordering::Relaxed);
                if s >= shards {
                    break;
                }
                let mut todo: Vec<&Case> = cases.iter().map(|c| &c.1).filter(|c| c.id % shards == s).collect();
                let mut round = 0;
                while !todo.is_empty() {
                    round += 1;
                    let jobs = root.join(format!("jobs-{s}-{round}.jsonl"));
                    let results = root.join(format!("results-{s}-{round}.jsonl"));
                    let _ = std::fs::remove_file(&results);
                    let mut jf = std::fs::File::create(&jobs).unwrap();
                    for c in &todo {
                        writeln!(jf, "{}", serde_json::to_string(c).unwrap()).unwrap();
                    }
                    drop(jf);
                    let status = spawn_worker(&jobs, &results);
                    let mut done: BTreeSet<usize> = BTreeSet::new();
                    let mut in_progress: Option<usize> = None;
                    if let Ok(f) = std::fs::File::open(&results) {
                        for line in std::io::BufReader::new(f).lines().flatten() {
                            if let Some(id) = line.strip_prefix("BEGIN ") {
                                in_progress = id.trim().parse().ok();
                            } else if let Some(js) = line.strip_prefix("END ") {
                                if let Ok(r) = serde_json::from_str::<CaseResult>(js) {
                                    done.insert(r.id);
                                    all_results.lock().unwrap().insert(r.id, Ok(r));
                                    in_progress = None;
                                }
                            }
                        }
                    }
                    if !status.success() {
                        if let Some(id) = in_progress {
                            deaths.fetch_add(1, Ordering::Relaxed);
                            done.insert(id);
                            all_results.lock().unwrap().insert(id, Err(format!("the tools process died ({status}) while working on this input")));
                        } else if done.is_empty() {
                            // the child could not even start: give up on this shard
                            for c in &todo {
                                all_results.lock().unwrap().insert(c.id, Err(format!("tools worker failed: {status}")));
                            }
                            break;
                        }
                    }
                    todo.retain(|c| !done.contains(&c.id));
                    let _ = std::fs::remove_file(&jobs);
                    let _ = std::fs::remove_file(&results);
                }
            });
        }
    });
    stats.child_deaths = deaths.load(Ordering::Relaxed);
    let all_results = all_results.into_inner().unwrap();
    let mut origs: HashMap<usize, Vec<u8>> = HashMap::new();
    for (bi, case) in &cases {
        let bc = &blobs[*bi];
        let orig = origs.entry(*bi).or_insert_with(|| std::fs::read(&bc.blob).unwrap()).clone();
        let fs = match all_results.get(&case.id) {
            Some(Ok(r)) => judge_case(&orig, bc, case, r, &mut stats),
            Some(Err(e)) => vec![finding("tool_crash", e.clone())],
            None => vec![finding("machinery", "no result for this case".to_string())],
        };
        if stats.samples.len() < 4 && case.id % 1999 == 5 {
            stats.samples.push(format!("{} {:?}", bc.name, case.damage));
        }
        if !fs.is_empty() {
            stats.violations += 1;
            let n = stats.violations_by_kind.entry(fs[0].kind.clone()).or_insert(0);
            *n += 1;
            if *n <= 4 {
                violations.push((bc.name.clone(), case.damage.clone(), fs));
            }
        }
    }
    let _ = std::fs::remove_dir_all(&root);
    (stats, violations)
}

fn near_structure(orig: &[u8], key_len: usize, pos: usize) -> bool {
    if pos < 24 {
        return true;
    }
    let p = blobfile::parse(orig, key_len);
    for r in &p.records {
        let o = r.offset as usize;
        let hdr_end = o + r.header_len as usize + r.meta_len as usize;
        if (pos + 4 >= o && pos < hdr_end + 8) || (pos + 8 >= r.end() as usize && pos <= r.end() as usize + 4) {
            return true;
        }
    }
    false
}
