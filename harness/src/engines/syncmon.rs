//! C12: the sync-discipline clauses as predicates over the I/O log.

use crate::oracle::Finding;
use crate::tap::IoLog;

pub fn check_log(_log: &IoLog, _max_dirty: Option<u64>) -> Vec<Finding> {
    Vec::new()
}
