#!/bin/bash
# Regenerates corpus/data from a given tree of qoollo/pearl (default: the pinned sha 8fcb7aa,
# checked out into a scratch worktree that is removed afterwards). Not part of any check.
set -eu
SHA=${1:-8fcb7aa}
S=/dev/shm/corpus-gen-$$
git -C /repo worktree add --detach $S/tree $SHA >/dev/null
mkdir -p $S/gen && cp -r /verif/corpus/gen/src /verif/corpus/gen/Cargo.toml $S/gen/
cp /verif/harness/Cargo.lock $S/gen/
sed -i "s|PEARL_PATH|$S/tree|" $S/gen/Cargo.toml
(cd $S/gen && CARGO_NET_OFFLINE=true CARGO_TARGET_DIR=$S/target cargo run --release --offline -- $S/out "$(git -C $S/tree rev-parse HEAD)")
rm -rf /verif/corpus/data && mkdir -p /verif/corpus/data && cp -r $S/out/. /verif/corpus/data/
find /verif/corpus/data -name '*.lock' -delete
git -C /repo worktree remove --force $S/tree
rm -rf $S
du -sh /verif/corpus/data
