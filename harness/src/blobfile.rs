//! Independent parser of pearl's blob file format (used for tiling checks and for placing
//! damage), written from the format description, not sharing code with pearl.

use std::path::{Path, PathBuf};

use crate::world::CRC32C;

pub const BLOB_HEADER_LEN: u64 = 20;
pub const RECORD_MAGIC: u64 = 0xacdc_bcde;
pub const BLOB_MAGIC: u64 = 0xdeaf_abcd;

#[derive(Debug, Clone, PartialEq, Eq)]
pub struct RecInfo {
    pub offset: u64,
    pub header_len: u64,
    pub meta_len: u64,
    pub data_len: u64,
    pub key: Vec<u8>,
    pub ts: u64,
    pub deleted: bool,
    pub blob_offset_field: u64,
    pub header_crc_ok: bool,
    pub data_crc_ok: bool,
    /// the metadata bytes are a canonical bincode map of strings to byte vectors filling meta_len
    pub meta_ok: bool,
}

/// bincode `HashMap<String, Vec<u8>>`: count, then (klen, utf-8 key, vlen, value) entries with
/// distinct keys, exactly filling the buffer.
pub fn meta_well_formed(b: &[u8]) -> bool {
    if b.len() < 8 {
        return false;
    }
    let n = u64_at(b, 0) as usize;
    let mut o = 8usize;
    let mut keys = std::collections::BTreeSet::new();
    for _ in 0..n {
        if o + 8 > b.len() {
            return false;
        }
        let kl = u64_at(b, o) as usize;
        o += 8;
        if kl > b.len() || o + kl > b.len() {
            return false;
        }
        match std::str::from_utf8(&b[o..o + kl]) {
            Ok(k) => {
                if !keys.insert(k.to_string()) {
                    return false;
                }
            }
            Err(_) => return false,
        }
        o += kl;
        if o + 8 > b.len() {
            return false;
        }
        let vl = u64_at(b, o) as usize;
        o += 8;
        if vl > b.len() || o + vl > b.len() {
            return false;
        }
        o += vl;
        if n > b.len() {
            return false;
        }
    }
    o == b.len()
}

impl RecInfo {
    pub fn end(&self) -> u64 {
        self.offset + self.header_len + self.meta_len + self.data_len
    }
    pub fn data_offset(&self) -> u64 {
        self.offset + self.header_len + self.meta_len
    }
}

#[derive(Debug, Clone, PartialEq, Eq)]
pub struct Parsed {
    pub header_ok: bool,
    pub records: Vec<RecInfo>,
    /// offset where parsing stopped (== file length iff the records tile the file)
    pub stopped_at: u64,
    pub len: u64,
    pub problem: Option<String>,
}

fn u64_at(b: &[u8], o: usize) -> u64 {
    u64::from_le_bytes(b[o..o + 8].try_into().unwrap())
}

fn u32_at(b: &[u8], o: usize) -> u32 {
    u32::from_le_bytes(b[o..o + 4].try_into().unwrap())
}

pub fn parse(bytes: &[u8], key_len: usize) -> Parsed {
    let len = bytes.len() as u64;
    let mut p = Parsed {
        header_ok: false,
        records: vec![],
        stopped_at: 0,
        len,
        problem: None,
    };
    if bytes.len() < BLOB_HEADER_LEN as usize {
        p.problem = Some("file shorter than the blob header".into());
        return p;
    }
    if u64_at(bytes, 0) != BLOB_MAGIC || u32_at(bytes, 8) != 1 {
        p.problem = Some("bad blob header".into());
        return p;
    }
    p.header_ok = true;
    let hl = 57 + key_len;
    let mut off = BLOB_HEADER_LEN as usize;
    while off < bytes.len() {
        if off + hl > bytes.len() {
            p.problem = Some(format!("partial record header at {off}"));
            break;
        }
        let h = &bytes[off..off + hl];
        if u64_at(h, 0) != RECORD_MAGIC {
            p.problem = Some(format!("bad record magic at {off}"));
            break;
        }
        if u64_at(h, 8) as usize != key_len {
            p.problem = Some(format!("bad key length at {off}"));
            break;
        }
        let key = h[16..16 + key_len].to_vec();
        let o = 16 + key_len;
        let meta_len = u64_at(h, o);
        let data_len = u64_at(h, o + 8);
        let flags = h[o + 16];
        let blob_offset_field = u64_at(h, o + 17);
        let ts = u64_at(h, o + 25);
        let data_crc = u32_at(h, o + 33);
        let header_crc = u32_at(h, o + 37);
        let mut hz = h.to_vec();
        hz[o + 37..o + 41].copy_from_slice(&[0; 4]);
        let header_crc_ok = CRC32C.checksum(&hz) == header_crc;
        if !header_crc_ok {
            p.problem = Some(format!("bad record header checksum at {off}"));
            break;
        }
        let end = off as u64 + hl as u64 + meta_len + data_len;
        if end > len {
            p.problem = Some(format!("record at {off} extends past the end of the file"));
            break;
        }
        let d0 = off + hl + meta_len as usize;
        let data_crc_ok = CRC32C.checksum(&bytes[d0..d0 + data_len as usize]) == data_crc;
        let meta_ok = meta_well_formed(&bytes[off + hl..d0]);
        p.records.push(RecInfo {
            offset: off as u64,
            header_len: hl as u64,
            meta_len,
            data_len,
            key,
            ts,
            deleted: flags & 1 == 1,
            blob_offset_field,
            header_crc_ok,
            data_crc_ok,
            meta_ok,
        });
        off = end as usize;
    }
    p.stopped_at = off as u64;
    p
}

/// Findings of the tiling check: records tile the file from the blob header to EOF, every
/// header and data checksum is valid, every record's stored offset is its position.
pub fn tiling_problems(bytes: &[u8], key_len: usize) -> Vec<String> {
    let p = parse(bytes, key_len);
    let mut out = Vec::new();
    if let Some(pr) = &p.problem {
        out.push(pr.clone());
    }
    if p.problem.is_none() && p.stopped_at != p.len {
        out.push(format!("parsing stopped at {} of {}", p.stopped_at, p.len));
    }
    for r in &p.records {
        if !r.data_crc_ok {
            out.push(format!("record at {}: data checksum mismatch", r.offset));
        }
        if r.blob_offset_field != r.offset {
            out.push(format!(
                "record at {}: stored blob_offset {}",
                r.offset, r.blob_offset_field
            ));
        }
    }
    out
}

pub fn blob_files(dir: &Path) -> Vec<(usize, PathBuf)> {
    let mut v = Vec::new();
    if let Ok(rd) = std::fs::read_dir(dir) {
        for e in rd.flatten() {
            let p = e.path();
            if crate::ctl::is_blob(&p) && p.is_file() {
                if let Some(id) = crate::tap::blob_id(&p) {
                    v.push((id, p));
                }
            }
        }
    }
    v.sort();
    v
}

/// Cuts the highest-id blob inside its last record header, or inside the blob header when it
/// holds no record.
pub fn damage_highest_blob(dir: &Path, key_len: usize) {
    if let Some((_, path)) = blob_files(dir).pop() {
        let bytes = std::fs::read(&path).unwrap_or_default();
        let p = parse(&bytes, key_len);
        let new_len = match p.records.last() {
            Some(r) => r.offset + 10,
            None => 10.min(bytes.len() as u64),
        };
        let f = std::fs::OpenOptions::new().write(true).open(&path).expect("open blob for damage");
        f.set_len(new_len).expect("truncate");
    }
}
