//! C10 (unit part): exhaustive check of the bloom and range filters over small domains: every
//! subset of an 8-key alphabet x bit counts x hasher counts, in memory, after a serialisation
//! round trip, and probed byte-wise from the serialized form (the off-loaded path).

use pearl::filter::{FilterTrait, RangeFilter};
use pearl::{ArrayKey, Bloom, BloomConfig, BloomDataProvider, FilterResult};

use crate::oracle::{finding, Finding};

struct RawProvider(Vec<u8>);

#[async_trait::async_trait]
impl BloomDataProvider for RawProvider {
    async fn read_byte(&self, index: u64) -> anyhow::Result<u8> {
        self.0.get(index as usize).copied().ok_or_else(|| anyhow::anyhow!("read past the end of the serialized filter: {index}"))
    }
}

#[derive(Debug, Default, Clone, serde::Serialize)]
pub struct FilterStats {
    pub configurations: usize,
    pub subsets_checked: usize,
    pub probes: usize,
    pub merges: usize,
    pub distinct_bit_patterns: usize,
    pub violations: usize,
    pub samples: Vec<String>,
}

fn key(i: u32) -> ArrayKey<4> {
    // spread the alphabet over the key space; probes use other values
    ArrayKey::from((i.wrapping_mul(0x9E37_79B1) ^ 0x5bd1_e995).to_be_bytes())
}

fn maybe(r: FilterResult) -> bool {
    r == FilterResult::NeedAdditionalCheck
}

fn maybe_ref(r: &FilterResult) -> bool {
    *r == FilterResult::NeedAdditionalCheck
}

pub fn bloom_config(bits: usize, hashers: usize) -> BloomConfig {
    let mut c = BloomConfig::default();
    c.elements = 1;
    c.hashers_count = hashers;
    c.max_buf_bits_count = bits;
    c.preferred_false_positive_rate = 1e-9;
    c
}

pub fn run(thorough: bool) -> (FilterStats, Vec<(String, Vec<Finding>)>) {
    let mut stats = FilterStats::default();
    let mut violations: Vec<(String, Vec<Finding>)> = Vec::new();
    let mut patterns = std::collections::BTreeSet::new();
    let mut bit_counts: Vec<usize> = (0..=130).collect();
    bit_counts.extend([1000, 1023, 1024, 1025]);
    let alphabet: Vec<ArrayKey<4>> = (0..8).map(key).collect();
    let probes: Vec<ArrayKey<4>> = (100..164).map(key).collect();
    let subsets: Vec<u32> = if thorough { (0..256).collect() } else { (0..256).filter(|s| s % 3 != 1 || *s < 64).collect() };
    for &bits in &bit_counts {
        for hashers in 0..=3usize {
            stats.configurations += 1;
            let cfg = bloom_config(bits, hashers);
            for &subset in &subsets {
                stats.subsets_checked += 1;
                let mut fs: Vec<Finding> = Vec::new();
                let bloom = Bloom::new(cfg.clone());
                for (i, k) in alphabet.iter().enumerate() {
                    if subset & (1 << i) != 0 {
                        let _ = bloom.add(k);
                    }
                }
                let mem = |b: &Bloom, k: &ArrayKey<4>| maybe(<Bloom as FilterTrait<ArrayKey<4>>>::contains_fast(b, k));
                // 1. no false negative in memory
                for (i, k) in alphabet.iter().enumerate() {
                    if subset & (1 << i) != 0 && !mem(&bloom, k) {
                        fs.push(finding("bloom.false_negative", format!("bits {bits} hashers {hashers} subset {subset:08b}: added key {i} answers NotContains")));
                    }
                }
                // 2. round trip and byte-wise probing agree with the in-memory answers for every key
                match bloom.to_raw() {
                    Err(e) => fs.push(finding("bloom.to_raw", format!("bits {bits} hashers {hashers}: {e:#}"))),
                    Ok(raw) => {
                        patterns.insert(raw.clone());
                        let restored = Bloom::from_raw(&raw);
                        let provider = RawProvider(raw);
                        let mut offloaded = bloom.clone();
                        offloaded.offload_from_memory();
                        // the path a reopened storage takes: deserialize, then off-load
                        let restored_offloaded = restored.as_ref().ok().map(|r| {
                            let mut r = r.clone();
                            r.offload_from_memory();
                            r
                        });
                        for k in alphabet.iter().chain(probes.iter()) {
                            stats.probes += 1;
                            let want = mem(&bloom, k);
                            match &restored {
                                Ok(r) => {
                                    if mem(r, k) != want {
                                        fs.push(finding("bloom.round_trip", format!("bits {bits} hashers {hashers} subset {subset:08b}: answer for {k:?} changes after to_raw/from_raw")));
                                    }
                                }
                                Err(e) => fs.push(finding("bloom.from_raw", format!("bits {bits} hashers {hashers}: {e:#}"))),
                            }
                            let in_file = futures::executor::block_on(offloaded.contains_in_file(&provider, k));
                            match in_file {
                                Ok(r) if maybe_ref(&r) == want => {}
                                Ok(r) => fs.push(finding(
                                    "bloom.file_probe",
                                    format!("bits {bits} hashers {hashers} subset {subset:08b}: key {k:?} in memory maybe={want}, probed from the serialized bytes {r:?}"),
                                )),
                                Err(e) => fs.push(finding("bloom.file_probe_error", format!("bits {bits} hashers {hashers}: {e:#}"))),
                            }
                            if let Some(ro) = &restored_offloaded {
                                match futures::executor::block_on(ro.contains_in_file(&provider, k)) {
                                    Ok(r) if maybe_ref(&r) == want => {}
                                    other => fs.push(finding(
                                        "bloom.file_probe_after_reload",
                                        format!("bits {bits} hashers {hashers} subset {subset:08b}: key {k:?} in memory maybe={want}, deserialized + off-loaded filter probed from the bytes: {other:?}"),
                                    )),
                                }
                            }
                            // the FilterTrait entry point used by blobs (falls back to the provider when off-loaded)
                            let via_trait = futures::executor::block_on(<Bloom as FilterTrait<ArrayKey<4>>>::contains(&offloaded, &provider, k));
                            if maybe(via_trait) != want {
                                fs.push(finding("bloom.offloaded", format!("bits {bits} hashers {hashers} subset {subset:08b}: off-loaded answer for {k:?} differs from the in-memory answer")));
                            }
                        }
                    }
                }
                // 3. merge with every subset of the first four keys
                if subset < 16 {
                    for other in 0..16u32 {
                        stats.merges += 1;
                        let b2 = Bloom::new(cfg.clone());
                        for (i, k) in alphabet.iter().enumerate().take(4) {
                            if other & (1 << i) != 0 {
                                let _ = b2.add(k);
                            }
                        }
                        let mut merged = bloom.clone();
                        if merged.checked_add_assign(&b2) {
                            for (i, k) in alphabet.iter().enumerate() {
                                if (subset | other) & (1 << i) != 0 && !mem(&merged, k) {
                                    fs.push(finding("bloom.merge", format!("bits {bits} hashers {hashers}: merge of {subset:04b} and {other:04b} lost key {i}")));
                                }
                            }
                        }
                    }
                }
                if !fs.is_empty() {
                    stats.violations += 1;
                    if violations.len() < 20 {
                        violations.push((format!("bloom bits={bits} hashers={hashers} subset={subset:08b}"), fs));
                    }
                } else if stats.samples.len() < 3 && subset == 0b1010_0110 && hashers == 2 {
                    stats.samples.push(format!("bloom bits={bits} hashers={hashers} subset={subset:08b}: 72 keys probed in memory / restored / from bytes"));
                }
            }
        }
    }
    // range filter: every subset of the alphabet (sorted keys), round trip, merge
    let mut sorted = alphabet.clone();
    sorted.sort();
    for subset in 0..256u32 {
        stats.subsets_checked += 1;
        let mut fs: Vec<Finding> = Vec::new();
        let r: RangeFilter<ArrayKey<4>> = RangeFilter::new();
        for (i, k) in sorted.iter().enumerate() {
            if subset & (1 << i) != 0 {
                r.add(k);
            }
        }
        for (i, k) in sorted.iter().enumerate() {
            if subset & (1 << i) != 0 && !r.contains(k) {
                fs.push(finding("range.false_negative", format!("subset {subset:08b}: added key {i} is outside the range")));
            }
        }
        match r.to_raw().and_then(|raw| RangeFilter::<ArrayKey<4>>::from_raw(&raw)) {
            Ok(r2) => {
                for k in sorted.iter().chain(probes.iter()) {
                    stats.probes += 1;
                    if r.contains(k) != r2.contains(k) {
                        fs.push(finding("range.round_trip", format!("subset {subset:08b}: answer for {k:?} changes after to_raw/from_raw")));
                    }
                }
            }
            Err(e) => fs.push(finding("range.raw", format!("{e:#}"))),
        }
        for other in 0..16u32 {
            stats.merges += 1;
            let r2: RangeFilter<ArrayKey<4>> = RangeFilter::new();
            for (i, k) in sorted.iter().enumerate().take(4) {
                if other & (1 << i) != 0 {
                    r2.add(k);
                }
            }
            let mut merged = r.clone();
            if <RangeFilter<ArrayKey<4>> as FilterTrait<ArrayKey<4>>>::checked_add_assign(&mut merged, &r2) {
                for (i, k) in sorted.iter().enumerate() {
                    if (subset | other) & (1 << i) != 0 && !merged.contains(k) {
                        fs.push(finding("range.merge", format!("merge of {subset:08b} and {other:04b} lost key {i}")));
                    }
                }
            }
        }
        if !fs.is_empty() {
            stats.violations += 1;
            if violations.len() < 20 {
                violations.push((format!("range subset={subset:08b}"), fs));
            }
        }
    }
    stats.distinct_bit_patterns = patterns.len();
    (stats, violations)
}
