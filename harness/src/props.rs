//! Property registry: which engine instances decide which property, at which tier.

use std::time::Instant;

use serde_json::json;

use crate::ctl::IoMode;
use crate::engines::seq::{self, Checks, SeqSpec};
use crate::evidence::{self, Report};
use crate::world::{BloomCfg, Op};

/// `--replay <file>`: re-execute one recorded violation (seq: operation list, sched: schedule)
/// without the explorer, twice, and require identical observations.
#[derive(Debug, Clone)]
pub struct ReplayReq {
    pub spec: String,
    pub ops: Option<Vec<Op>>,
    pub schedule: Option<Vec<usize>>,
}

static REPLAY: std::sync::OnceLock<ReplayReq> = std::sync::OnceLock::new();

pub struct Args {
    pub prop: String,
    pub tier: String,
    pub seed: i64,
    pub threads: usize,
}

fn parse(args: &[String]) -> Args {
    let mut a = Args {
        prop: String::new(),
        tier: std::env::var("VERIF_TIER").unwrap_or_else(|_| "quick".into()),
        seed: std::env::var("VERIF_SEED").ok().and_then(|s| s.parse().ok()).unwrap_or(0),
        threads: std::thread::available_parallelism().map_or(8, |n| n.get()),
    };
    let mut i = 0;
    while i < args.len() {
        match args[i].as_str() {
            "--tier" => {
                a.tier = args[i + 1].clone();
                i += 1;
            }
            "--threads" => {
                a.threads = args[i + 1].parse().unwrap();
                i += 1;
            }
            "--replay" => {
                let v: serde_json::Value = serde_json::from_str(&std::fs::read_to_string(&args[i + 1]).expect("replay file")).expect("replay json");
                if a.prop.is_empty() {
                    a.prop = v["property"].as_str().unwrap_or("").to_string();
                }
                if let Some(t) = v["tier"].as_str() {
                    a.tier = t.to_string();
                }
                let spec = v["spec"].as_str().map(|s| s.to_string()).or_else(|| v["spec"]["name"].as_str().map(|s| s.to_string())).unwrap_or_default();
                let req = ReplayReq {
                    spec,
                    ops: serde_json::from_value(v["ops"].clone()).ok(),
                    schedule: serde_json::from_value(v["schedule"].clone()).ok(),
                };
                if req.ops.is_none() && req.schedule.is_none() {
                    println!("this replay file is descriptive only (engine {}): {}", v["engine"], v["description"]);
                    std::process::exit(0);
                }
                let _ = REPLAY.set(req);
                i += 1;
            }
            s if a.prop.is_empty() => a.prop = s.to_string(),
            s => {
                eprintln!("unexpected argument {s}");
                std::process::exit(2)
            }
        }
        i += 1;
    }
    a
}

pub fn check_cmd(args: &[String]) -> i32 {
    let a = parse(args);
    let t0 = Instant::now();
    let mut rep = match a.prop.as_str() {
        "C01" => c01(&a),
        "C02" => c02(&a),
        "C03" => c03(&a),
        "C04" => c04(&a),
        "C05" => c05(&a),
        "C06" => c06(&a),
        "C07" => c07(&a),
        "C08" => c08(&a),
        "C09" => c09(&a),
        "C10" => c10(&a),
        "C14" => c14(&a),
        "C11" => c11(&a),
        "C16" => c16(&a),
        "C17" => c17(&a),
        "C12" => c12(&a),
        "C13" => c13(&a),
        "C15" => c15(&a),
        p => {
            eprintln!("no check for {p}");
            return 2;
        }
    };
    rep.wall_s = t0.elapsed().as_secs_f64();
    rep.write_and_exit_code()
}

pub fn selftest() -> i32 {
    let spec = SeqSpec::new("selftest", vec![], 0);
    let h = vec![Op::w(0, 1), Op::Rot, Op::d(0, 2), Op::Tick, Op::w(1, 1), Op::Rst, Op::w(0, 3)];
    let mut spec = spec;
    spec.checks = Checks { outcome: true, latest: true, history: true, accounting: true, filters: true, transparent: true, no_harm: true, alive: true, sync: false, rotation: false };
    for mode in [IoMode::Inplace, IoMode::Background] {
        spec.io_mode = mode;
        let r1 = seq::run_history_dyn(&spec, &h);
        let r2 = seq::run_history_dyn(&spec, &h);
        println!("mode {:?}: end {:?} outcome {:?}", mode, r1.end, r1.outcome);
        println!("  obs {:?}", r1.obs_after.as_ref().map(|o| &o.keys[&0]));
        println!("  listing {:?}", r1.listing);
        let f = seq::judge(&spec, &h, &r1);
        println!("  findings: {:#?}", f);
        assert_eq!(r1.obs_after, r2.obs_after, "nondeterministic observation");
        assert_eq!(r1.listing, r2.listing);
    }
    0
}

fn no_known(_: &SeqSpec, _: &[Op], _: &crate::oracle::Finding) -> Option<String> {
    None
}

fn seq_report(prop: &str, a: &Args, level: &str, results: Vec<seq::SeqResult>, rule: &str) -> Report {
    let mut violations = Vec::new();
    let mut states = 0;
    let mut transitions = 0;
    let mut distinct = 0;
    let mut samples = Vec::new();
    let mut per_spec = Vec::new();
    let mut machinery = Vec::new();
    let mut known = Vec::new();
    let mut exhaustive = true;
    for r in &results {
        states += r.stats.states;
        transitions += r.stats.transitions;
        distinct += r.stats.distinct_observations;
        samples.extend(r.stats.samples.iter().cloned());
        if r.stats.cap_hit {
            exhaustive = false;
        }
        if r.stats.abstraction_divergences > 0 {
            // reported, not fatal: see DESIGN 2.3
        }
        per_spec.push(json!(r.stats));
        for v in &r.violations {
            if v.findings.iter().any(|f| f.kind == "machinery") {
                machinery.push(format!("{}: {:?}", v.spec, v.findings));
                continue;
            }
            let desc = format!("[{}] {} :: {}", v.spec, v.history.join(" "), v.findings[0].detail);
            violations.push((json!({"engine": "seq", "spec": v.spec, "ops": v.ops, "history": v.history, "findings": v.findings}), desc));
        }
        for (k, h) in &r.known {
            known.push((k.clone(), format!("witness {}", h.join(" "))));
        }
    }
    violations.truncate(10);
    Report {
        property: prop.into(),
        tier: a.tier.clone(),
        seed: a.seed,
        level: level.into(),
        coverage: json!({
            "states": states,
            "transitions": transitions,
            "traces_validated_against_impl": transitions,
            "evaluations": transitions,
            "distinct_nontrivial": distinct,
            "rule": rule,
            "samples": samples,
            "exhaustive": exhaustive,
            "instances": per_spec,
        }),
        assumptions: vec![
            "sequential histories under the zero-preemption default schedule; background work runs to quiescence after every operation".into(),
            "states merged when the reference model state is equal (guarded by a digest of the implementation's observable state)".into(),
        ],
        wall_s: 0.0,
        violations,
        known,
        machinery_errors: machinery,
    }
}

fn c01(a: &Args) -> Report {
    let thorough = a.tier == "thorough";
    let mut alphabet = Vec::new();
    for k in [0u8, 1] {
        for ts in [1u64, 2] {
            alphabet.push(Op::w(k, ts));
            alphabet.push(Op::d(k, ts));
        }
    }
    alphabet.extend([Op::Rot, Op::Rst, Op::RstLazy]);
    let mut specs = Vec::new();
    let mut s = SeqSpec::new("C01/placement/L4/bloom-1024", alphabet.clone(), if thorough { 6 } else { 4 });
    s.checks = Checks { outcome: true, latest: true, ..Default::default() };
    specs.push(s.clone());
    for (kl, bloom) in [(1usize, BloomCfg::Default), (33, BloomCfg::None), (8, BloomCfg::Bits(70))] {
        let mut t = s.clone();
        t.name = format!("C01/placement/L{kl}/{bloom:?}");
        t.key_len = kl;
        t.wcfg.bloom = bloom;
        t.depth = s.depth - 1;
        specs.push(t);
    }
    {
        // duplicates disallowed: a put of a key whose newest record is a deletion marker is stored
        let mut t = s.clone();
        t.name = "C01/placement/no-duplicates".into();
        t.depth = s.depth - 1;
        t.wcfg.allow_duplicates = false;
        specs.push(t);
    }
    {
        let mut t = s.clone();
        t.name = "C01/placement/alt-config-2".into();
        t.depth = s.depth - 1;
        alt_config2(&mut t);
        specs.push(t);
    }
    // filter groups: with small group sizes the merged bloom / range filters of groups of closed
    // blobs decide which blobs a lookup visits; three ordered keys so that a blob can extend a
    // group's key range on either side or on both
    {
        let fa = vec![Op::w(0, 1), Op::w(1, 1), Op::w(2, 1), Op::w(2, 2), Op::d(2, 2), Op::d(0, 2), Op::Rot, Op::Rst];
        let mut t = SeqSpec::new("C01/filter-groups/group2", fa, if thorough { 7 } else { 5 });
        t.checks = Checks { outcome: true, latest: true, ..Default::default() };
        t.wcfg.group_size = 2;
        t.keys = vec![0, 1, 2];
        specs.push(t.clone());
        if thorough {
            // three blobs per group need deeper histories: writes and rotations only
            t.name = "C01/filter-groups/group3".into();
            t.alphabet = vec![Op::w(0, 1), Op::w(1, 1), Op::w(2, 1), Op::d(2, 2), Op::Rot];
            t.depth = 8;
            t.wcfg.group_size = 3;
            specs.push(t);
        }
    }
    // many blobs: eleven closed blobs + the active one (ids reach two digits, the default filter
    // group size of 8 is exceeded), every blob holds a version of k0 with the same timestamp:
    // the most recently created blob wins, before and after restarts
    {
        let mut prefix = Vec::new();
        for _ in 0..11 {
            prefix.push(Op::w(0, 1));
            prefix.push(Op::Rot);
        }
        let mb = vec![Op::w(0, 1), Op::w(0, 2), Op::d(0, 1), Op::w(1, 1), Op::Rot, Op::Rst, Op::RstLazy];
        let mut t = SeqSpec::new("C01/many-blobs", mb, if thorough { 4 } else { 3 });
        t.prefix = prefix;
        t.checks = Checks { outcome: true, latest: true, history: true, ..Default::default() };
        t.keys = vec![0, 1];
        specs.push(t);
    }
    // a closed blob whose on-disk index has several inner nodes per layer: 1000-byte keys (three
    // headers per leaf, five children per inner node), 36 keys = 12 leaves under 3 inner nodes
    {
        let mut prefix: Vec<Op> = (0..36u8).map(|k| Op::w(k, 1)).collect();
        prefix.push(Op::Rot);
        let bi = vec![Op::w(17, 2), Op::d(20, 2), Op::w(35, 1), Op::Rot, Op::Rst];
        let mut t = SeqSpec::new("C01/big-index/L1000", bi, if thorough { 3 } else { 2 });
        t.prefix = prefix;
        t.key_len = 1000;
        t.checks = Checks { outcome: true, latest: true, ..Default::default() };
        t.keys = (0..36u8).collect();
        specs.push(t);
    }
    // version runs: one key, every sequence of writes / deletes over three timestamps (the
    // insertion path changes beyond four versions of a key), observed in memory, through the
    // on-disk index (after a rotation) and after a restart
    let mut run_alphabet = Vec::new();
    for ts in [1u64, 2, 3] {
        run_alphabet.push(Op::w(0, ts));
        run_alphabet.push(Op::d(0, ts));
    }
    for (ename, epilogue, depth) in [
        ("memory", vec![], if thorough { 7 } else { 6 }),
        ("on-disk", vec![Op::Rot], if thorough { 7 } else { 5 }),
        ("restart", vec![Op::Rst], if thorough { 6 } else { 5 }),
    ] {
        let mut t = SeqSpec::new(&format!("C01/version-run/{ename}"), run_alphabet.clone(), depth);
        t.checks = Checks { outcome: true, latest: true, history: true, ..Default::default() };
        t.keys = vec![0];
        t.epilogue = epilogue;
        specs.push(t);
    }
    let results = run_specs(&specs, a, &no_known);
    seq_report("C01", a, "model_checking", results, "BFS over operation sequences; a state is the canonical reference-model state; distinct_nontrivial counts distinct query-answer vectors observed")
}

fn run_specs(specs: &[SeqSpec], a: &Args, known: &seq::KnownFn) -> Vec<seq::SeqResult> {
    if let Some(req) = REPLAY.get() {
        if let (Some(ops), Some(spec)) = (&req.ops, specs.iter().find(|s| s.name == req.spec)) {
            let r1 = seq::run_history_dyn(spec, ops);
            let r2 = seq::run_history_dyn(spec, ops);
            println!("REPLAY engine=seq spec={} history={}", spec.name, ops.iter().map(|o| o.short()).collect::<Vec<_>>().join(" "));
            if r1.obs_after != r2.obs_after || r1.outcome != r2.outcome || r1.listing != r2.listing {
                println!("MACHINERY-ERROR: the two executions of the history differ");
                std::process::exit(2);
            }
            let fs = seq::judge(spec, ops, &r1);
            for f in &fs {
                println!("  {}: {}", f.kind, f.detail);
            }
            println!("outcome of the last operation: {:?}", r1.outcome);
            crate::world::remove_dir(&r1.dir);
            crate::world::remove_dir(&r2.dir);
            let _ = std::fs::remove_dir_all(crate::world::scratch_root());
            std::process::exit(if fs.is_empty() { 0 } else { 1 });
        }
        if req.ops.is_some() {
            return vec![];
        }
    }
    specs.iter().map(|s| seq::bfs(s, a.threads, known)).collect()
}

const SEQ_RULE: &str = "BFS over operation sequences; a state is the canonical reference-model state; every (state, op) transition is executed on the real storage; distinct_nontrivial counts distinct query-answer vectors observed";

fn c02(a: &Args) -> Report {
    let thorough = a.tier == "thorough";
    let mut alphabet = Vec::new();
    for ts in [1u64, 2] {
        for meta in [None, Some(1u8), Some(2)] {
            alphabet.push(Op::Write { k: 0, ts, meta, size: 24 });
        }
        for oip in [true, false] {
            alphabet.push(Op::Delete { k: 0, ts, oip, meta: 0 });
        }
    }
    alphabet.push(Op::Delete { k: 0, ts: 2, oip: false, meta: 1 });
    alphabet.push(Op::Rot);
    alphabet.push(Op::w(1, 1));
    let mut specs = Vec::new();
    for dup in [true, false] {
        let mut s = SeqSpec::new(&format!("C02/allow_duplicates={dup}"), alphabet.clone(), if thorough { 5 } else { 4 });
        s.wcfg.allow_duplicates = dup;
        s.metas = vec![0, 1, 2];
        s.checks = Checks { outcome: true, latest: true, history: true, ..Default::default() };
        specs.push(s);
    }
    // deeper on a smaller alphabet: three blobs contributing, markers below live puts
    let small = vec![
        Op::Write { k: 0, ts: 1, meta: Some(1), size: 24 },
        Op::Write { k: 0, ts: 2, meta: Some(2), size: 24 },
        Op::w(0, 3),
        Op::Delete { k: 0, ts: 2, oip: true, meta: 0 },
        Op::Delete { k: 0, ts: 1, oip: false, meta: 0 },
        Op::Rot,
    ];
    let mut s = SeqSpec::new("C02/deep-small", small.clone(), if thorough { 8 } else { 6 });
    s.metas = vec![0, 1, 2];
    s.checks = Checks { outcome: true, latest: true, history: true, ..Default::default() };
    specs.push(s.clone());
    // the same with restarts under the other configuration (8-byte keys, 70-bit bloom filter,
    // filter groups of two blobs, background I/O, duplicates disallowed)
    let mut alt = small;
    alt.push(Op::Rst);
    s.name = "C02/deep-small/alt-config".into();
    s.alphabet = alt;
    s.depth = if thorough { 7 } else { 5 };
    alt_config(&mut s);
    s.wcfg.allow_duplicates = false;
    specs.push(s);
    // versions of one key that span several leaf blocks of an on-disk index: 1000-byte keys (three
    // headers per leaf), the largest key of a closed blob carries five versions and a marker
    {
        let big = vec![
            Op::w(0, 1),
            Op::w(1, 1),
            Op::Write { k: 2, ts: 1, meta: Some(1), size: 24 },
            Op::w(2, 2),
            Op::Write { k: 2, ts: 3, meta: Some(2), size: 24 },
            Op::w(2, 4),
            Op::w(2, 5),
            Op::Rot,
        ];
        let alphabet = vec![Op::Delete { k: 2, ts: 3, oip: true, meta: 0 }, Op::Write { k: 2, ts: 6, meta: Some(1), size: 24 }, Op::w(1, 2), Op::Rot, Op::Rst];
        let mut s = SeqSpec::new("C02/big-index/L1000", alphabet, if thorough { 4 } else { 3 });
        s.prefix = big;
        s.key_len = 1000;
        s.metas = vec![0, 1, 2];
        s.keys = vec![0, 1, 2];
        s.checks = Checks { outcome: true, latest: true, history: true, ..Default::default() };
        specs.push(s);
    }
    let results = run_specs(&specs, a, &no_known);
    seq_report("C02", a, "model_checking", results, SEQ_RULE)
}

/// The configuration corner opposite to the default one.
fn alt_config(s: &mut SeqSpec) {
    s.key_len = 8;
    s.wcfg.bloom = BloomCfg::Bits(70);
    s.wcfg.group_size = 2;
    s.io_mode = IoMode::Background;
}

/// A third configuration corner: 33-byte keys, no bloom filter, filter groups of three, data
/// validated whenever an index is regenerated.
fn alt_config2(s: &mut SeqSpec) {
    s.key_len = 33;
    s.wcfg.bloom = BloomCfg::None;
    s.wcfg.group_size = 3;
    s.wcfg.validate_data = true;
}

fn lifecycle_alphabet() -> Vec<Op> {
    vec![
        Op::TryClose,
        Op::TryCreate,
        Op::TryRestore,
        Op::Rot,
        Op::ForceNever,
        Op::FreeExcess,
        Op::Offload { level: 0 },
        Op::Offload { level: 1 },
        Op::Fsync,
        Op::Tick,
    ]
}

fn c04(a: &Args) -> Report {
    let thorough = a.tier == "thorough";
    let mut alphabet = vec![Op::w(0, 1), Op::w(1, 2), Op::w(0, 2), Op::d(0, 2)];
    alphabet.extend(lifecycle_alphabet());
    let mut specs = Vec::new();
    for (gs, depth) in [(2usize, if thorough { 5 } else { 4 }), (3, if thorough { 5 } else { 3 }), (8, if thorough { 4 } else { 3 })] {
        let mut s = SeqSpec::new(&format!("C04/seq/group{gs}"), alphabet.clone(), depth);
        s.wcfg.group_size = gs;
        s.checks = Checks { outcome: true, latest: true, history: true, filters: true, transparent: true, alive: true, ..Default::default() };
        specs.push(s);
    }
    let mut s = specs[0].clone();
    s.name = "C04/seq/group2/background-io".into();
    s.io_mode = IoMode::Background;
    s.depth -= 1;
    specs.push(s);
    {
        let mut t = specs[0].clone();
        t.name = "C04/seq/alt-config-2".into();
        t.depth -= 1;
        alt_config2(&mut t);
        specs.push(t);
    }
    {
        // blobs written under different numbers of bloom hash functions in one directory
        let mut t = specs[0].clone();
        t.name = "C04/seq/mixed-hasher-counts".into();
        t.alphabet = vec![Op::w(0, 1), Op::w(2, 1), Op::Rot, Op::TryClose, Op::TryRestore, Op::RstOtherHashers, Op::Offload { level: 1 }, Op::d(1, 2)];
        t.prefix = vec![Op::w(1, 1), Op::Rot];
        t.wcfg.bloom = BloomCfg::Bits(64);
        t.keys = vec![0, 1, 2];
        t.depth = if thorough { 5 } else { 4 };
        specs.push(t);
    }
    {
        // a group of three with one member whose node buffer is off-loaded (a merge into it fails)
        let mut t = specs[0].clone();
        t.name = "C04/seq/group3-from-one-member-offloaded".into();
        t.alphabet = vec![Op::w(0, 1), Op::w(2, 1), Op::Rot, Op::TryClose, Op::Offload { level: 1 }, Op::d(1, 2)];
        t.prefix = vec![Op::w(1, 1), Op::Rot, Op::Offload { level: 1 }];
        t.wcfg.group_size = 3;
        t.wcfg.bloom = BloomCfg::Bits(70);
        t.keys = vec![0, 1, 2];
        t.depth = if thorough { 5 } else { 4 };
        specs.push(t);
    }
    // from a reopened storage: two closed blobs whose indexes and filters were read from their
    // index files, the third blob re-activated; 70-bit bloom filter
    let mut s = specs[0].clone();
    s.name = "C04/seq/reopened".into();
    s.prefix = vec![Op::w(0, 1), Op::Rot, Op::w(1, 2), Op::Rot, Op::w(0, 3), Op::Rst];
    s.wcfg.bloom = BloomCfg::Bits(70);
    s.depth = if thorough { 4 } else { 3 };
    specs.push(s);
    let results = run_specs(&specs, a, &no_known);
    let mut rep = seq_report("C04", a, "model_checking", results, SEQ_RULE);
    // interleavings of a data client with a maintenance client
    let mut sspecs = Vec::new();
    let maint: Vec<(&str, Vec<COp>)> = vec![
        ("close-restore", vec![COp::M(Op::TryClose), COp::M(Op::TryRestore)]),
        ("close-create", vec![COp::M(Op::TryClose), COp::M(Op::TryCreate)]),
        ("rot", vec![COp::M(Op::Rot)]),
        ("delete-closed", vec![COp::D { k: 0, ts: 5 }]),
        ("free", vec![COp::M(Op::FreeExcess)]),
        ("fsync", vec![COp::M(Op::Fsync)]),
        ("bg", vec![COp::M(Op::CloseBg), COp::M(Op::RestoreBg)]),
    ];
    for (mname, mops) in &maint {
        for mode in [IoMode::Inplace, IoMode::Background] {
            let clients = vec![vec![COp::w(0, 10), COp::R(0), COp::D { k: 0, ts: 12 }], mops.clone()];
            let mut s = SchedSpec::new(&format!("C04/sched/{mname}/{mode:?}"), mode, vec![Op::w(0, 1), Op::Rot, Op::w(1, 2)], clients);
            s.clock_choices = if *mname == "delete-closed" { 1 } else { 0 };
            s.bound = if thorough { 3 } else { 2 };
            s.max_execs = if thorough { 60_000 } else { 4_000 };
            s.lock_points = true;
            s.read_points = thorough;
            sspecs.push(s);
        }
    }
    // sharp instances: one data operation against one maintenance call, explored completely
    for (mname, mop) in [("close", Op::TryClose), ("rot", Op::Rot), ("closebg", Op::CloseBg), ("free", Op::FreeExcess), ("fsync", Op::Fsync)] {
        for (dname, dop) in [("W", COp::w(0, 10)), ("D", COp::D { k: 0, ts: 12 }), ("R", COp::R(0)), ("RA", COp::RA(0))] {
            for mode in [IoMode::Inplace, IoMode::Background] {
                let mut s = SchedSpec::new(&format!("C04/sched1/{dname}|{mname}/{mode:?}"), mode, vec![Op::w(0, 1), Op::Rot, Op::w(0, 2)], vec![vec![dop.clone()], vec![COp::M(mop)]]);
                s.bound = if thorough { 3 } else { 2 };
                s.max_execs = if thorough { 60_000 } else { 3_500 };
                sspecs.push(s);
            }
        }
    }
    // no active blob: a data operation (which may create the active blob lazily) or a second
    // lifecycle call against restore / create
    let noactive = vec![Op::w(0, 1), Op::Rot, Op::w(0, 2), Op::TryClose];
    for (mname, mop) in [("restore", Op::TryRestore), ("create", Op::TryCreate), ("restorebg", Op::RestoreBg)] {
        let others = [
            ("W", COp::w(0, 10)),
            ("D", COp::D { k: 0, ts: 12 }),
            ("R", COp::R(0)),
            ("RA", COp::RA(0)),
            ("restore", COp::M(Op::TryRestore)),
            ("create", COp::M(Op::TryCreate)),
        ];
        for (dname, dop) in others {
            for mode in [IoMode::Inplace, IoMode::Background] {
                let mut s = SchedSpec::new(&format!("C04/sched1-noactive/{dname}|{mname}/{mode:?}"), mode, noactive.clone(), vec![vec![dop.clone()], vec![COp::M(mop)]]);
                s.bound = if thorough { 3 } else { 2 };
                s.max_execs = if thorough { 60_000 } else { 2_500 };
                s.followup = vec![COp::w(1, 20), COp::R(1)];
                sspecs.push(s);
            }
        }
    }
    let sres = run_sched_specs(&sspecs, a.threads);
    let srep = sched_report("C04", a, sres, SCHED_RULE, &|_| None);
    merge_reports(&mut rep, srep);
    rep
}

fn c07(a: &Args) -> Report {
    let thorough = a.tier == "thorough";
    let alphabet = vec![
        Op::w(0, 1),
        Op::d(0, 2),
        Op::Rot,
        Op::TryClose,
        Op::TryRestore,
        Op::TryCreate,
        Op::Rst,
        Op::RstLazy,
        Op::DamageRst,
        Op::DamageRstLazy,
        Op::KillRst,
    ];
    let mut s = SeqSpec::new("C07/seq", alphabet, if thorough { 6 } else { 5 });
    s.checks = Checks { no_harm: true, ..Default::default() };
    // the same where unreadable blobs are skipped and stay in the work directory
    let mut ign = s.clone();
    ign.name = "C07/seq/ignore-corrupted".into();
    ign.wcfg.ignore_corrupted = true;
    ign.depth = s.depth - 1;
    // a blob file name prefix that itself contains dots and digits (file names are parsed from
    // the right: <prefix>.<id>.blob)
    let mut dotted = s.clone();
    dotted.name = "C07/seq/dotted-prefix".into();
    dotted.wcfg.prefix = "a.7.b";
    dotted.depth = s.depth - 1;
    let specs = if evidence::part_enabled("seq") { vec![s, ign, dotted] } else { vec![] };
    let results = run_specs(&specs, a, &no_known);
    let mut rep = seq_report("C07", a, "model_checking", results, SEQ_RULE);
    // the same monitors over every fault placement and over every crash state's recovery
    if evidence::part_enabled("fault") {
        let f = fault_part("C07", a, crate::engines::fault::FaultOracle::NoHarm);
        merge_reports(&mut rep, f);
    }
    if evidence::part_enabled("crash") {
        let c = crash_part("C07", a, crate::engines::crash::CrashOracle::NoHarm, 2, if thorough { 2048 } else { 300 }, if thorough { 6_000 } else { 500 });
        merge_reports(&mut rep, c);
    }
    rep
}

fn c10(a: &Args) -> Report {
    let thorough = a.tier == "thorough";
    let alphabet = vec![
        Op::w(0, 1),
        Op::w(1, 1),
        Op::w(2, 1),
        Op::w(3, 1),
        Op::Rot,
        Op::TryClose,
        Op::TryRestore,
        Op::d(0, 2),
        Op::Offload { level: 0 },
        Op::Offload { level: 1 },
        Op::Offload { level: 2 },
        Op::Rst,
    ];
    let mut specs = Vec::new();
    for (gs, bloom) in [(2usize, BloomCfg::Bits(64)), (3, BloomCfg::Bits(70)), (2, BloomCfg::None)] {
        let mut s = SeqSpec::new(&format!("C10/storage/group{gs}/{bloom:?}"), alphabet.clone(), if thorough { 5 } else { 4 });
        s.wcfg.group_size = gs;
        s.wcfg.bloom = bloom;
        s.keys = vec![0, 1, 2, 3, crate::world::ABSENT_KEY];
        s.checks = Checks { latest: true, filters: true, ..Default::default() };
        specs.push(s);
    }
    // deeper states of the filter hierarchy (groups of three) as starting points: a group with one
    // member whose node buffer is off-loaded, a group with two members, a full group plus one
    let small = vec![Op::w(0, 1), Op::w(2, 1), Op::w(3, 1), Op::Rot, Op::Offload { level: 1 }, Op::TryRestore, Op::d(1, 2), Op::Rst];
    for (pname, prefix) in [
        ("one-member-offloaded", vec![Op::w(1, 1), Op::Rot, Op::Offload { level: 1 }]),
        ("two-members", vec![Op::w(1, 1), Op::Rot, Op::w(0, 1), Op::Rot]),
        ("full-group-plus-one", vec![Op::w(1, 1), Op::Rot, Op::w(0, 1), Op::Rot, Op::w(2, 1), Op::Rot, Op::w(3, 1), Op::Rot]),
        // a blob whose filter buffer was off-loaded while it was closed is active again
        ("restored-offloaded", vec![Op::w(1, 1), Op::TryClose, Op::Offload { level: 0 }, Op::TryRestore]),
        ("restored-offloaded-after-restart", vec![Op::w(1, 1), Op::Rot, Op::w(0, 1), Op::Rst, Op::TryClose, Op::Offload { level: 0 }, Op::TryRestore]),
    ] {
        let mut s = SeqSpec::new(&format!("C10/storage/group3/from-{pname}"), small.clone(), if thorough { 5 } else { 4 });
        s.prefix = prefix;
        s.wcfg.group_size = 3;
        s.wcfg.bloom = BloomCfg::Bits(70);
        s.keys = vec![0, 1, 2, 3, crate::world::ABSENT_KEY];
        s.checks = Checks { latest: true, filters: true, ..Default::default() };
        specs.push(s);
    }
    // blobs written under different filter configurations in one directory: restarts that change
    // the number of hash functions (1, 2, 3) while the bit count stays the same
    {
        let mixed = vec![Op::w(0, 1), Op::w(2, 1), Op::w(3, 1), Op::Rot, Op::RstOtherHashers, Op::Offload { level: 1 }, Op::d(1, 2)];
        let mut s = SeqSpec::new("C10/storage/group2/mixed-hasher-counts", mixed, if thorough { 6 } else { 5 });
        s.prefix = vec![Op::w(1, 1), Op::Rot];
        s.wcfg.group_size = 2;
        s.wcfg.bloom = BloomCfg::Bits(64);
        s.keys = vec![0, 1, 2, 3, crate::world::ABSENT_KEY];
        s.checks = Checks { latest: true, filters: true, ..Default::default() };
        specs.push(s);
    }
    let results = run_specs(&specs, a, &no_known);
    let mut rep = seq_report("C10", a, "model_checking", results, SEQ_RULE);
    // unit part: exhaustive over small filter domains
    let (st, viols) = crate::engines::filters::run(thorough);
    if let serde_json::Value::Object(o) = &mut rep.coverage {
        o.insert("filter_unit".into(), json!(st));
        let add = |o: &mut serde_json::Map<String, serde_json::Value>, k: &str, n: usize| {
            let cur = o.get(k).and_then(|x| x.as_u64()).unwrap_or(0);
            o.insert(k.into(), json!(cur + n as u64));
        };
        add(o, "states", st.configurations);
        add(o, "transitions", st.subsets_checked);
        add(o, "traces_validated_against_impl", st.subsets_checked);
        add(o, "evaluations", st.subsets_checked);
        add(o, "distinct_nontrivial", st.distinct_bit_patterns);
    }
    for (name, fs) in viols {
        let desc = format!("[C10/unit] {name} :: {}", fs[0].detail);
        rep.violations.push((json!({"engine": "filters", "case": name, "findings": fs}), desc));
    }
    rep.violations.truncate(10);
    rep
}

fn c13(a: &Args) -> Report {
    let thorough = a.tier == "thorough";
    let alphabet = vec![
        Op::CloseBg,
        Op::CreateBg,
        Op::RestoreBg,
        Op::TryClose,
        Op::TryCreate,
        Op::TryRestore,
        Op::Rot,
        Op::ForceNever,
        Op::FreeExcess,
        Op::w(0, 1),
        Op::d(0, 2),
        Op::RstLazy,
        Op::DamageRstLazy,
        Op::TickShort,
    ];
    let mut s = SeqSpec::new("C13/seq", alphabet, if thorough { 5 } else { 4 });
    s.wcfg.max_data_in_blob = 2;
    // overflow, then the clock passes the first deferred deadline early (a re-armed deadline must
    // survive), then far beyond every deadline
    s.epilogue = vec![Op::w(7, 1), Op::w(7, 2), Op::w(7, 3), Op::TickShort, Op::Tick];
    s.keys = vec![0, 7];
    s.checks = Checks { alive: true, rotation: true, ..Default::default() };
    // `DamageRstLazy` as the first operation gives the state with neither an active nor a closed
    // blob, in which every background lifecycle request "cannot apply"
    // the other rotation trigger: the size limit (two 93-byte records behind the 20-byte header)
    let mut by_size = s.clone();
    by_size.name = "C13/seq/size-limit".into();
    by_size.wcfg.max_data_in_blob = 1_000_000;
    by_size.wcfg.max_blob_size = 200;
    by_size.depth = s.depth - 1;
    let results = run_specs(&[s, by_size], a, &no_known);
    let mut rep = seq_report("C13", a, "model_checking", results, SEQ_RULE);
    // epilogue writers interleaved with the worker, from every lifecycle prefix of depth <= 2
    let life = [Op::CloseBg, Op::CreateBg, Op::RestoreBg, Op::TryClose, Op::Rot, Op::FreeExcess, Op::d(0, 2)];
    let mut prefixes: Vec<Vec<Op>> = vec![vec![]];
    for x in life {
        prefixes.push(vec![x]);
        if thorough {
            for y in life {
                prefixes.push(vec![x, y]);
            }
        }
    }
    let mut sspecs = Vec::new();
    for (i, p) in prefixes.iter().enumerate() {
        let mode = if i % 2 == 0 { IoMode::Inplace } else { IoMode::Background };
        let clients = vec![vec![COp::w(7, 10), COp::w(7, 11)], vec![COp::w(7, 12)]];
        let mut sp = SchedSpec::new(
            &format!("C13/sched/{}/{mode:?}", p.iter().map(|o| o.short()).collect::<Vec<_>>().join(";")),
            mode,
            p.clone(),
            clients,
        );
        sp.wcfg.max_data_in_blob = 2;
        sp.liveness_check = true;
        sp.keys = vec![0, 7];
        sp.bound = 2;
        sp.max_execs = if thorough { 30_000 } else { 3_000 };
        sp.lock_points = thorough;
        sp.read_points = false;
        sspecs.push(sp);
    }
    // every write also asks for a background sync (dirty-byte limit 0) while the channel to the
    // worker holds one or two messages: maintenance must survive a burst of notifications
    for cap in [1usize, 2] {
        let clients: Vec<Vec<COp>> = (0..cap + 2).map(|i| vec![COp::w(7, 10 + i as u64)]).collect();
        for max_data in [1u64, 2] {
            let mut sp = SchedSpec::new(&format!("C13/sched/sync-requests/cap{cap}/limit{max_data}"), IoMode::Inplace, vec![Op::w(0, 1)], clients.clone());
            sp.wcfg.max_data_in_blob = max_data;
            sp.wcfg.max_dirty = Some(0);
            sp.channel_capacity = Some(cap);
            sp.liveness_check = true;
            sp.keys = vec![0, 7];
            sp.bound = 2;
            sp.max_execs = if thorough { 30_000 } else { 3_000 };
            sp.read_points = false;
            sspecs.push(sp);
        }
    }
    // the deadline of a deferred dump (registered by a delete into a closed blob) may pass while a
    // dump task is running; blobs closed afterwards still get their index files
    for (cname, clients) in [
        ("D;Free;W;W;W", vec![vec![COp::D { k: 0, ts: 5 }, COp::M(Op::FreeExcess), COp::w(7, 10), COp::w(7, 11), COp::w(7, 12)]]),
        ("D;Free|W;W;W", vec![vec![COp::D { k: 0, ts: 5 }, COp::M(Op::FreeExcess)], vec![COp::w(7, 10), COp::w(7, 11), COp::w(7, 12)]]),
        ("D;Rot|W;W", vec![vec![COp::D { k: 0, ts: 5 }, COp::M(Op::Rot)], vec![COp::w(7, 10), COp::w(7, 11)]]),
    ] {
        for mode in [IoMode::Inplace, IoMode::Background] {
            let mut sp = SchedSpec::new(&format!("C13/sched/deadline-during-dump/{cname}/{mode:?}"), mode, vec![Op::w(0, 1), Op::Rot], clients.clone());
            sp.wcfg.max_data_in_blob = 2;
            sp.clock_choices = 1;
            sp.liveness_check = true;
            sp.keys = vec![0, 7];
            sp.bound = 2;
            sp.max_execs = if thorough { 30_000 } else { 3_000 };
            sp.read_points = false;
            sspecs.push(sp);
        }
    }
    // an index dump is requested while the worker's fsync task is still running
    for (cname, clients) in [
        ("W;CloseBg", vec![vec![COp::w(7, 10), COp::M(Op::CloseBg)]]),
        ("W;TryClose", vec![vec![COp::w(7, 10), COp::M(Op::TryClose)]]),
        ("W;Rot", vec![vec![COp::w(7, 10), COp::M(Op::Rot)]]),
        ("W|CloseBg", vec![vec![COp::w(7, 10)], vec![COp::M(Op::CloseBg)]]),
        ("W;FreeExcess|W", vec![vec![COp::w(7, 10), COp::M(Op::FreeExcess)], vec![COp::w(7, 11)]]),
    ] {
        for mode in [IoMode::Inplace, IoMode::Background] {
            let mut sp = SchedSpec::new(&format!("C13/sched/dump-while-syncing/{cname}/{mode:?}"), mode, vec![Op::w(0, 1)], clients.clone());
            sp.wcfg.max_dirty = Some(0);
            sp.liveness_check = true;
            sp.keys = vec![0, 7];
            sp.bound = 2;
            sp.max_execs = if thorough { 30_000 } else { 2_000 };
            sp.read_points = false;
            sspecs.push(sp);
        }
    }
    // the session is closed while the worker still has requests queued (no pause between the
    // request and the close): close returns, and the index files requested before it exist
    for (cname, clients) in [
        ("TryClose;close", vec![vec![COp::M(Op::TryClose)]]),
        ("FreeExcess;close", vec![vec![COp::M(Op::FreeExcess)]]),
        ("CloseBg;close", vec![vec![COp::M(Op::CloseBg)]]),
        ("W;Rot;close", vec![vec![COp::w(7, 10), COp::M(Op::Rot)]]),
        ("TryClose|W;close", vec![vec![COp::M(Op::TryClose)], vec![COp::w(7, 10)]]),
    ] {
        for (pname, prefix) in [("active", vec![Op::w(0, 1)]), ("no-active", vec![Op::w(0, 1), Op::TryClose]), ("closed+active", vec![Op::w(0, 1), Op::Rot, Op::w(0, 2)])] {
            let mode = if pname == "closed+active" { IoMode::Background } else { IoMode::Inplace };
            let mut sp = SchedSpec::new(&format!("C13/sched/early-close/{pname}/{cname}"), mode, prefix, clients.clone());
            sp.early_close = true;
            sp.liveness_check = true;
            sp.restart_at_end = false;
            sp.keys = vec![0, 7];
            sp.bound = 2;
            sp.max_execs = if thorough { 30_000 } else { 1_300 };
            sp.read_points = false;
            sspecs.push(sp);
        }
    }
    let sres = run_sched_specs(&sspecs, a.threads);
    let srep = sched_report("C13", a, sres, SCHED_RULE, &|_| None);
    merge_reports(&mut rep, srep);
    rep
}

fn c15(a: &Args) -> Report {
    let thorough = a.tier == "thorough";
    let alphabet = vec![
        Op::w(0, 1),
        Op::w(1, 1),
        Op::d(0, 2),
        Op::TryClose,
        Op::TryRestore,
        Op::TryCreate,
        Op::Rot,
        Op::DamageRst,
        Op::DamageRstLazy,
        Op::Rst,
        Op::RstLazy,
        Op::KillRst,
    ];
    let mut specs = Vec::new();
    for gs in [2usize, 8] {
        let mut s = SeqSpec::new(&format!("C15/seq/group{gs}"), alphabet.clone(), if thorough { 6 } else if gs == 2 { 5 } else { 4 });
        s.wcfg.group_size = gs;
        s.checks = Checks { accounting: true, ..Default::default() };
        specs.push(s.clone());
        if gs == 2 {
            s.name = "C15/seq/alt-config".into();
            s.depth = if thorough { 5 } else { 4 };
            alt_config(&mut s);
            specs.push(s.clone());
            s.name = "C15/seq/alt-config-2".into();
            s.io_mode = IoMode::Inplace;
            alt_config2(&mut s);
            specs.push(s);
        }
    }
    // eleven closed blobs + the active one: ids reach two digits, per-blob counts differ
    {
        let mut prefix = Vec::new();
        for i in 0..11u8 {
            for _ in 0..=(i % 3) {
                prefix.push(Op::w(i % 2, 1));
            }
            prefix.push(Op::Rot);
        }
        let mb = vec![Op::w(0, 1), Op::d(1, 2), Op::Rot, Op::Rst, Op::RstLazy, Op::TryClose, Op::TryRestore];
        let mut s = SeqSpec::new("C15/seq/many-blobs", mb, if thorough { 4 } else { 3 });
        s.prefix = prefix;
        s.checks = Checks { accounting: true, ..Default::default() };
        specs.push(s);
    }
    let results = run_specs(&specs, a, &no_known);
    let mut rep = seq_report("C15", a, "model_checking", results, SEQ_RULE);
    // concurrent histories: several operations that need an active blob queue behind a close (or a
    // rotation); at quiescence the counters must describe the blob files that exist
    let mut sspecs = Vec::new();
    for mode in [IoMode::Inplace, IoMode::Background] {
        for (cname, clients) in [
            ("TryClose|W|W", vec![vec![COp::M(Op::TryClose)], vec![COp::w(0, 10)], vec![COp::w(1, 11)]]),
            ("TryClose|W|D", vec![vec![COp::M(Op::TryClose)], vec![COp::w(0, 10)], vec![COp::D { k: 1, ts: 11 }]]),
            ("TryClose|W|TryCreate", vec![vec![COp::M(Op::TryClose)], vec![COp::w(0, 10)], vec![COp::M(Op::TryCreate)]]),
            ("CloseBg|W|W", vec![vec![COp::M(Op::CloseBg)], vec![COp::w(0, 10)], vec![COp::w(1, 11)]]),
            ("TryClose;TryRestore|W", vec![vec![COp::M(Op::TryClose), COp::M(Op::TryRestore)], vec![COp::w(0, 10)]]),
            // the write fills the blob (limit 2): the worker's switch races with the close
            ("Wfull;TryClose", vec![vec![COp::w(0, 10), COp::M(Op::TryClose)]]),
            ("Wfull|TryClose", vec![vec![COp::w(0, 10)], vec![COp::M(Op::TryClose)]]),
            ("Wfull|CloseBg", vec![vec![COp::w(0, 10)], vec![COp::M(Op::CloseBg)]]),
        ] {
            let mut s = SchedSpec::new(&format!("C15/sched/{cname}/{mode:?}"), mode, vec![Op::w(0, 1)], clients);
            if cname.starts_with("Wfull") {
                s.wcfg.max_data_in_blob = 2;
            }
            s.bound = if thorough { 3 } else { 2 };
            s.max_execs = if thorough { 40_000 } else { 3_000 };
            s.followup = vec![COp::w(1, 20), COp::M(Op::Rot), COp::w(0, 21)];
            sspecs.push(s);
        }
    }
    let sres = run_sched_specs(&sspecs, a.threads);
    let srep = sched_report("C15", a, sres, SCHED_RULE, &|_| None);
    merge_reports(&mut rep, srep);
    rep
}

fn c03(a: &Args) -> Report {
    let thorough = a.tier == "thorough";
    // `DamageRst`: a start that quarantines the highest-id blob (ids "ever present" then include
    // one that is no longer in the work directory)
    let alphabet = vec![Op::w(0, 1), Op::w(1, 2), Op::w(0, 2), Op::d(0, 2), Op::Rot, Op::TryClose, Op::DamageRst];
    let mut spec = SeqSpec::new("C03/restart", alphabet, if thorough { 5 } else { 4 });
    spec.metas = vec![0];
    let fine_depth = if thorough { 3 } else { 2 };
    let mut r = crate::engines::restart::run(&spec, fine_depth, a.threads);
    // the other configuration corner (8-byte keys, 70-bit bloom, filter groups of two, background
    // I/O, data validation during index regeneration)
    let mut alt = spec.clone();
    alt.name = "C03/restart/alt-config".into();
    alt.depth = spec.depth - 1;
    alt_config(&mut alt);
    // ... with the data of every record validated whenever an index is regenerated at start-up
    alt.wcfg.validate_data = true;
    let r2 = crate::engines::restart::run(&alt, fine_depth - 1, a.threads);
    // a blob file name prefix that contains dots and digits (names are `<prefix>.<id>.<ext>`)
    let mut dotted = spec.clone();
    dotted.name = "C03/restart/dotted-prefix".into();
    dotted.depth = spec.depth - 2;
    dotted.wcfg.prefix = "a.7.b";
    let r3 = crate::engines::restart::run(&dotted, 0, a.threads);
    // eleven closed blobs + the active one, a version of k0 with one timestamp in each: ids reach
    // two digits, the tie goes to the most recently created blob before and after the restart
    let mut many = spec.clone();
    many.name = "C03/restart/many-blobs".into();
    many.prefix = (0..11).flat_map(|_| [Op::w(0, 1), Op::Rot]).collect();
    many.alphabet = vec![Op::w(0, 1), Op::w(1, 2), Op::d(0, 2), Op::Rot];
    many.depth = if thorough { 3 } else { 2 };
    let r4 = crate::engines::restart::run(&many, 0, a.threads);
    for r2 in [r2, r3, r4] {
        r.stats.states += r2.stats.states;
        r.stats.restarts += r2.stats.restarts;
        r.stats.distinct_damaged_dirs += r2.stats.distinct_damaged_dirs;
        r.stats.fine_states += r2.stats.fine_states;
        r.stats.samples.extend(r2.stats.samples);
        r.violations.extend(r2.violations);
    }
    let mut violations = Vec::new();
    let mut machinery = Vec::new();
    for v in &r.violations {
        if v.findings.iter().any(|f| f.kind == "machinery") {
            machinery.push(format!("{v:?}"));
            continue;
        }
        let desc = format!("{} then close, {:?}, reopen lazy={} :: {}", v.history.join(" "), v.damage, v.lazy, v.findings[0].detail);
        violations.push((json!({"engine": "restart", "history": v.history, "lazy": v.lazy, "damage": v.damage, "findings": v.findings}), desc));
    }
    violations.truncate(10);
    Report {
        property: "C03".into(),
        tier: a.tier.clone(),
        seed: a.seed,
        level: "model_checking".into(),
        coverage: json!({
            "states": r.stats.states,
            "transitions": r.stats.restarts,
            "traces_validated_against_impl": r.stats.restarts,
            "evaluations": r.stats.restarts,
            "distinct_nontrivial": r.stats.distinct_damaged_dirs,
            "rule": "states = canonical model states reachable by the alphabet up to the depth; from each: close, one damage of the menu (per index file: removed, cleared written bit, truncated to 0 / header / half / len-1, older generation; all removed; all unwritten; from shallow states every truncation length with and without the written bit), reopen eager and lazy; distinct_nontrivial = distinct damaged directory contents",
            "samples": r.stats.samples,
            "exhaustive": true,
            "fine_sweep_states": r.stats.fine_states,
            "depth": spec.depth,
            "fine_depth": fine_depth,
        }),
        assumptions: vec!["damage is applied between sessions to index files only".into()],
        wall_s: 0.0,
        violations,
        known: vec![],
        machinery_errors: machinery,
    }
}

pub fn sched_probe() -> i32 {
    use crate::engines::sched::{self, COp, SchedSpec};
    for mode in [IoMode::Inplace, IoMode::Background] {
        for lock_points in [false, true] {
            let mut spec = SchedSpec::new("probe", mode, vec![], vec![vec![COp::w(0, 10), COp::R(0)], vec![COp::w(0, 11), COp::D { k: 0, ts: 12 }]]);
            spec.lock_points = lock_points;
            spec.bound = 2;
            let t0 = Instant::now();
            let r = sched::explore(&spec);
            println!("{mode:?} lock_points={lock_points}: {:?} in {:.1}s", r.stats, t0.elapsed().as_secs_f64());
            for v in r.violations.iter().take(2) {
                println!("  VIOL sched={:?} {:?}", v.schedule, v.findings);
            }
        }
    }
    0
}

// ---------------------------------------------------------------------------------------------
// sched-based properties
// ---------------------------------------------------------------------------------------------

use crate::engines::sched::{self, COp, SchedResult, SchedSpec};

fn run_sched_specs(specs: &[SchedSpec], threads: usize) -> Vec<SchedResult> {
    if let Some(req) = REPLAY.get() {
        if let (Some(schedule), Some(spec)) = (&req.schedule, specs.iter().find(|s| s.name == req.spec)) {
            let (t1, p1, o1) = sched::run_once(spec, schedule);
            let (t2, _, o2) = sched::run_once(spec, schedule);
            println!("REPLAY engine=sched spec={} schedule={:?} ({} preemptions)", spec.name, schedule, t1.preemptions());
            if t1.choices() != t2.choices() || o1.events != o2.events || o1.final_obs != o2.final_obs || t1.end != t2.end {
                println!("MACHINERY-ERROR: the two executions of the schedule differ");
                std::process::exit(2);
            }
            for e in &o1.events {
                println!("  client {} {} [{}..{}] = {:?}", e.client, e.op.short(), e.inv, e.resp, e.res);
            }
            println!("  end: {:?}", t1.end);
            let fs = sched::judge(spec, &t1, &p1, &o1);
            for f in &fs {
                println!("  {}: {}", f.kind, f.detail);
            }
            let _ = std::fs::remove_dir_all(crate::world::scratch_root());
            std::process::exit(if fs.is_empty() { 0 } else { 1 });
        }
        if req.schedule.is_some() {
            return vec![];
        }
    }
    use std::sync::atomic::{AtomicUsize, Ordering};
    use std::sync::Mutex;
    let next = AtomicUsize::new(0);
    let results: Mutex<Vec<(usize, SchedResult)>> = Mutex::new(Vec::new());
    std::thread::scope(|sc| {
        for _ in 0..threads.max(1) {
            sc.spawn(|| loop {
                let i = next.fetch_add(1, Ordering::Relaxed);
                if i >= specs.len() {
                    break;
                }
                let r = sched::explore(&specs[i]);
                results.lock().unwrap().push((i, r));
            });
        }
    });
    let mut v = results.into_inner().unwrap();
    v.sort_by_key(|x| x.0);
    v.into_iter().map(|x| x.1).collect()
}

fn sched_report(prop: &str, a: &Args, results: Vec<SchedResult>, rule: &str, known: &dyn Fn(&sched::SchedViolation) -> Option<(String, String)>) -> Report {
    let mut violations = Vec::new();
    let mut machinery = Vec::new();
    let mut known_hits: Vec<(String, String)> = Vec::new();
    let mut executions = 0;
    let mut decisions = 0;
    let mut distinct = 0;
    let mut all_completed = true;
    let mut instances = Vec::new();
    let mut samples = Vec::new();
    for r in &results {
        executions += r.stats.executions;
        decisions += r.stats.max_decisions;
        distinct += r.stats.distinct_outcomes;
        if !r.stats.bound_completed {
            all_completed = false;
        }
        instances.push(json!(r.stats));
        if samples.len() < 3 && !r.stats.sample_schedule.is_empty() {
            samples.push(json!({"instance": r.stats.spec, "schedule_choices": r.stats.sample_schedule}));
        }
        for v in &r.violations {
            if v.findings.iter().any(|f| f.kind == "machinery") {
                machinery.push(format!("{}: {:?}", v.spec.name, v.findings));
                continue;
            }
            if let Some((k, what)) = known(v) {
                if !known_hits.iter().any(|x| x.0 == k) {
                    known_hits.push((k, what));
                }
                continue;
            }
            let desc = format!("[{}] schedule {:?} ({} preemptions) :: {}", v.spec.name, v.schedule, v.preemptions, v.findings[0].detail);
            violations.push((json!({"engine": "sched", "spec": v.spec, "schedule": v.schedule, "preemptions": v.preemptions, "findings": v.findings}), desc));
        }
    }
    violations.truncate(10);
    Report {
        property: prop.into(),
        tier: a.tier.clone(),
        seed: a.seed,
        level: "model_checking".into(),
        coverage: json!({
            "states": decisions.max(1),
            "transitions": executions,
            "traces_validated_against_impl": executions,
            "evaluations": executions,
            "distinct_nontrivial": distinct,
            "rule": rule,
            "samples": samples,
            "exhaustive": all_completed,
            "instances": instances,
        }),
        assumptions: vec![
            "scheduling points: lock acquisitions, channel sends, file operations (in place) or detached I/O jobs (background), task wake-ups; sections between them are atomic".into(),
            "preemption-bounded: all schedules with at most the stated number of preemptions per instance".into(),
        ],
        wall_s: 0.0,
        violations,
        known: known_hits,
        machinery_errors: machinery,
    }
}

const SCHED_RULE: &str = "stateless DFS over schedules of the real storage under the token-passing controller, iterated preemption bound; states = scheduling decision points of the longest run per instance (summed), transitions = complete executions; distinct_nontrivial = distinct (results, final state) vectors summed over instances";

fn client_seqs() -> Vec<Vec<COp>> {
    // timestamps are filled in per instance
    vec![
        vec![COp::w(0, 0), COp::R(0)],
        vec![COp::w(0, 0), COp::w(0, 0)],
        vec![COp::w(0, 0), COp::D { k: 0, ts: 0 }],
        vec![COp::D { k: 0, ts: 0 }, COp::R(0)],
        vec![COp::R(0), COp::RA(0)],
        vec![COp::C(0), COp::R(0)],
        vec![COp::w(1, 0), COp::w(0, 0)],
        vec![COp::D { k: 0, ts: 0 }, COp::w(0, 0)],
    ]
}

fn stamp_ts(clients: &mut [Vec<COp>]) {
    for (ci, ops) in clients.iter_mut().enumerate() {
        for (oi, op) in ops.iter_mut().enumerate() {
            let t = 10 + 3 * ci as u64 + oi as u64;
            match op {
                COp::W { ts, .. } | COp::D { ts, .. } => *ts = t,
                _ => {}
            }
        }
    }
}

fn c08_instances(thorough: bool) -> Vec<SchedSpec> {
    let mut specs = Vec::new();
    let prefixes: Vec<(&str, Vec<Op>, u64)> = vec![
        ("fresh", vec![], 1_000_000),
        ("append", vec![Op::w(0, 1), Op::Rot, Op::w(1, 5), Op::Rst], 1_000_000),
        ("nearfull", vec![Op::w(1, 1)], 2),
    ];
    let seqs = client_seqs();
    for (pname, prefix, max_data) in &prefixes {
        for mode in [IoMode::Inplace, IoMode::Background] {
            // 2 clients x 2 operations: every unordered pair with at least one mutator
            for i in 0..seqs.len() {
                for j in i..seqs.len() {
                    let mutates = |s: &Vec<COp>| s.iter().any(|o| matches!(o, COp::W { .. } | COp::D { .. }));
                    if !mutates(&seqs[i]) && !mutates(&seqs[j]) {
                        continue;
                    }
                    let mut clients = vec![seqs[i].clone(), seqs[j].clone()];
                    stamp_ts(&mut clients);
                    let name = format!(
                        "C08/{pname}/{mode:?}/{}|{}",
                        clients[0].iter().map(|o| o.short()).collect::<Vec<_>>().join(";"),
                        clients[1].iter().map(|o| o.short()).collect::<Vec<_>>().join(";")
                    );
                    let mut s = SchedSpec::new(&name, mode, prefix.clone(), clients);
                    s.wcfg.max_data_in_blob = *max_data;
                    s.bound = if thorough { 3 } else { 2 };
                    s.max_execs = if thorough { 60_000 } else { 4_000 };
                    specs.push(s);
                }
            }
            // 2 clients x 1 operation: small enough to complete every bound
            let ones = [COp::w(0, 0), COp::R(0), COp::C(0), COp::RA(0), COp::D { k: 0, ts: 0 }, COp::w(1, 0)];
            for a in 0..ones.len() {
                for b in a..ones.len() {
                    if !matches!(ones[a], COp::W { .. } | COp::D { .. }) && !matches!(ones[b], COp::W { .. } | COp::D { .. }) {
                        continue;
                    }
                    let mut clients = vec![vec![ones[a].clone()], vec![ones[b].clone()]];
                    stamp_ts(&mut clients);
                    let name = format!("C08/{pname}/{mode:?}/1x1/{}|{}", clients[0][0].short(), clients[1][0].short());
                    let mut s = SchedSpec::new(&name, mode, prefix.clone(), clients);
                    s.wcfg.max_data_in_blob = *max_data;
                    specs.push(s);
                }
            }
            // 3 clients x 1 operation
            let singles = [COp::w(0, 0), COp::R(0), COp::D { k: 0, ts: 0 }, COp::RA(0), COp::w(1, 0)];
            for a in 0..singles.len() {
                for b in a..singles.len() {
                    for c in b..singles.len() {
                        let ops = [&singles[a], &singles[b], &singles[c]];
                        let muts = ops.iter().filter(|o| matches!(o, COp::W { .. } | COp::D { .. })).count();
                        if muts < 2 {
                            continue;
                        }
                        let mut clients: Vec<Vec<COp>> = ops.iter().map(|o| vec![(*o).clone()]).collect();
                        stamp_ts(&mut clients);
                        let name = format!(
                            "C08/{pname}/{mode:?}/{}",
                            clients.iter().map(|c| c[0].short()).collect::<Vec<_>>().join("|")
                        );
                        let mut s = SchedSpec::new(&name, mode, prefix.clone(), clients);
                        s.wcfg.max_data_in_blob = *max_data;
                        s.bound = if thorough { 3 } else { 2 };
                        s.max_execs = if thorough { 60_000 } else { 4_000 };
                        specs.push(s);
                    }
                }
            }
        }
    }
    // one data operation against one blob switch (close, background close, rotation, restore):
    // the blob holding the acknowledged record moves between "active" and the closed list while
    // the query or mutation is in flight
    let switches: Vec<(&str, Vec<Op>, Op)> = vec![
        ("close", vec![Op::w(0, 1)], Op::TryClose),
        ("closebg", vec![Op::w(0, 1)], Op::CloseBg),
        ("rot", vec![Op::w(0, 1)], Op::Rot),
        ("restore", vec![Op::w(0, 1), Op::TryClose], Op::TryRestore),
        ("restorebg", vec![Op::w(0, 1), Op::TryClose], Op::RestoreBg),
        ("create", vec![Op::w(0, 1), Op::TryClose], Op::TryCreate),
    ];
    for (sname, prefix, sop) in &switches {
        for dop in [COp::R(0), COp::C(0), COp::RA(0), COp::w(0, 10), COp::D { k: 0, ts: 12 }] {
            for mode in [IoMode::Inplace, IoMode::Background] {
                let name = format!("C08/life/{sname}/{mode:?}/{}|{}", dop.short(), sop.short());
                let mut clients = vec![vec![dop.clone()], vec![COp::M(sop.clone())]];
                stamp_ts(&mut clients);
                specs.push(SchedSpec::new(&name, mode, prefix.clone(), clients));
            }
        }
    }
    // small filter groups: a blob switch folds the outgoing blob's filters into its group's, which
    // decides whether later lookups visit the group at all; keys on both sides of the group's range
    for mode in [IoMode::Inplace, IoMode::Background] {
        for (cname, clients) in [
            ("W0;W2;Rot;R2|R0", vec![vec![COp::w(0, 10), COp::w(2, 11), COp::M(Op::Rot), COp::R(2)], vec![COp::R(0)]]),
            ("W0;W2|Rot;R2", vec![vec![COp::w(0, 10), COp::w(2, 11)], vec![COp::M(Op::Rot), COp::R(2)]]),
        ] {
            let mut clients = clients;
            stamp_ts(&mut clients);
            let mut s = SchedSpec::new(&format!("C08/life/groups/{mode:?}/{cname}"), mode, vec![Op::w(1, 1), Op::Rot], clients);
            s.wcfg.group_size = 2;
            s.keys = vec![0, 1, 2];
            s.followup = vec![COp::M(Op::Rot), COp::R(0), COp::R(2), COp::RA(2)];
            specs.push(s);
        }
    }
    // background sync in play (tiny dirty-byte limit): the fsync task holds the shared storage lock
    // while a close / rotation asks for it exclusively
    for mode in [IoMode::Inplace, IoMode::Background] {
        for (cname, clients, max_data) in [
            ("W;W|TryClose", vec![vec![COp::w(0, 10), COp::w(0, 11)], vec![COp::M(Op::TryClose)]], 1_000_000u64),
            ("W;W|Rot", vec![vec![COp::w(0, 10), COp::w(0, 11)], vec![COp::M(Op::Rot)]], 1_000_000),
            ("W;W|W", vec![vec![COp::w(0, 10), COp::w(0, 11)], vec![COp::w(1, 12)]], 2),
        ] {
            let mut clients = clients;
            stamp_ts(&mut clients);
            let mut s = SchedSpec::new(&format!("C08/life/syncing/{mode:?}/{cname}"), mode, vec![Op::w(1, 1)], clients);
            s.wcfg.max_dirty = Some(1);
            s.wcfg.max_data_in_blob = max_data;
            specs.push(s);
        }
    }
    // duplicates disallowed: concurrent identical writes
    for mode in [IoMode::Inplace, IoMode::Background] {
        let mut clients = vec![vec![COp::w(0, 10)], vec![COp::w(0, 11)]];
        let mut s = SchedSpec::new(&format!("C08/nodup/{mode:?}/W|W"), mode, vec![], std::mem::take(&mut clients));
        s.wcfg.allow_duplicates = false;
        s.bound = if thorough { 3 } else { 2 };
        specs.push(s);
    }
    // back-pressure: channel capacity 1 and 2, capacity + 2 writers on an over-full blob
    for cap in [1usize, 2] {
        for mode in [IoMode::Inplace, IoMode::Background] {
            let clients: Vec<Vec<COp>> = (0..cap + 2).map(|i| vec![COp::w(0, 10 + i as u64)]).collect();
            let mut s = SchedSpec::new(&format!("C08/backpressure/cap{cap}/{mode:?}"), mode, vec![Op::w(1, 1)], clients);
            s.wcfg.max_data_in_blob = 1;
            s.channel_capacity = Some(cap);
            s.bound = if thorough { 3 } else { 2 };
            s.max_execs = if thorough { 100_000 } else { 20_000 };
            specs.push(s.clone());
            // the same with every write asking for a background sync (dirty-byte limit 0): one
            // more kind of notification competes for the channel
            s.name = format!("C08/backpressure/cap{cap}/{mode:?}/syncing");
            s.wcfg.max_dirty = Some(0);
            specs.push(s);
        }
    }
    // back-pressure from deletes into a closed blob (each registers a deferred index dump) while
    // a blob switch is requested
    for cap in [1usize, 2] {
        for mode in [IoMode::Inplace, IoMode::Background] {
            let mut clients: Vec<Vec<COp>> = (0..cap + 2).map(|i| vec![COp::D { k: i as u8, ts: 20 + i as u64 }]).collect();
            clients.push(vec![COp::M(Op::Rot)]);
            let prefix: Vec<Op> = (0..cap + 2).map(|i| Op::w(i as u8, 1)).chain([Op::Rot]).collect();
            let mut s = SchedSpec::new(&format!("C08/backpressure/cap{cap}/{mode:?}/deletes"), mode, prefix, clients);
            s.channel_capacity = Some(cap);
            s.keys = vec![0, 1, 2];
            s.bound = if thorough { 3 } else { 2 };
            s.max_execs = if thorough { 100_000 } else { 20_000 };
            specs.push(s);
        }
    }
    specs
}

fn known_file() -> Vec<evidence::KnownFinding> {
    evidence::load_known(&evidence::verif_root().join("known_findings.json"))
}

/// Two granularities per instance: fine (lock, send, I/O and read points) at a lower bound,
/// coarse (send and write/job points only) at a higher one.
fn granularities(specs: Vec<SchedSpec>, thorough: bool) -> Vec<SchedSpec> {
    let mut out = Vec::new();
    for s in specs {
        let small = s.name.contains("/1x1/") || s.name.contains("/life/");
        let special = s.name.contains("backpressure") || s.name.contains("nodup") || small;
        let mut fine = s.clone();
        fine.name = format!("{}/fine", s.name);
        fine.bound = if thorough { 2 } else { 1 };
        fine.max_execs = if thorough { 40_000 } else if small { 1_000 } else if special { 1_600 } else { 200 };
        if special {
            fine.bound += 1;
        }
        out.push(fine);
        if small && !thorough {
            continue; // the fine granularity completes; no coarse twin needed
        }
        let mut coarse = s.clone();
        coarse.name = format!("{}/coarse", s.name);
        coarse.lock_points = false;
        coarse.read_points = false;
        coarse.bound = if thorough { 3 } else { 2 };
        coarse.max_execs = if thorough { 40_000 } else { 200 };
        out.push(coarse);
    }
    out
}

/// The "thousands of clients" clause at the real constants: 1026 writers (channel capacity
/// 1024 + 2) on an over-full blob, one directed schedule that brings every writer to its
/// channel send while it holds the storage lock, then lets the worker and the senders go.
fn c08_scale_instance() -> SchedSpec {
    let clients: Vec<Vec<COp>> = (0..1026u64).map(|i| vec![COp::w((i % 200) as u8, 10 + i)]).collect();
    let mut s = SchedSpec::new("C08/scale/1026-writers-capacity-1024/directed", IoMode::Inplace, vec![Op::w(201, 1)], clients);
    s.wcfg.max_data_in_blob = 1;
    s.gather_at_send = true;
    s.bound = 0;
    s.max_execs = 1;
    s.keys = vec![0, 1, 199];
    s.restart_at_end = false;
    s
}

fn c08(a: &Args) -> Report {
    let mut specs = granularities(c08_instances(a.tier == "thorough"), a.tier == "thorough");
    specs.push(c08_scale_instance());
    let results = run_sched_specs(&specs, a.threads);
    let known = known_file();
    sched_report("C08", a, results, SCHED_RULE, &|v| {
        if v.findings.iter().all(|f| f.kind == "dup_check_race") && evidence::is_open(&known, "C08", "dup-check-race") {
            Some((
                "dup-check-race".to_string(),
                format!("duplicates disallowed: two overlapping writes of one key are both stored ({}, schedule {:?})", v.spec.name, v.schedule),
            ))
        } else {
            None
        }
    })
}

pub fn sched_debug(name: &str) -> i32 {
    let specs = c08_instances(false);
    let spec = match specs.iter().find(|s| s.name == name) {
        Some(s) => s.clone(),
        None => {
            eprintln!("no such instance");
            return 2;
        }
    };
    // run default, then re-run each one-deviation prefix twice and compare traces
    let (t0, _, _) = sched::run_once(&spec, &[]);
    println!("default: {} decisions, end {:?}", t0.decisions.len(), t0.end);
    let mut stack: Vec<Vec<usize>> = vec![vec![]];
    let mut n = 0;
    while let Some(prefix) = stack.pop() {
        let (a, _, _) = sched::run_once(&spec, &prefix);
        let (b, _, _) = sched::run_once(&spec, &prefix);
        n += 1;
        let ea: Vec<_> = a.decisions.iter().map(|d| (d.enabled.clone(), d.chosen)).collect();
        let eb: Vec<_> = b.decisions.iter().map(|d| (d.enabled.clone(), d.chosen)).collect();
        if ea != eb || a.end != b.end {
            println!("NONDETERMINISM at prefix {:?} (run {n})", prefix);
            for i in 0..ea.len().max(eb.len()) {
                if ea.get(i) != eb.get(i) {
                    println!("  first difference at decision {i}:\n   A {:?}\n   B {:?}", ea.get(i), eb.get(i));
                    if i > 0 { println!("   prev {:?}", ea.get(i-1)); }
                    break;
                }
            }
            println!("  ends {:?} / {:?}", a.end, b.end);
            return 1;
        }
        if prefix.len() < 1 {
            for (i, d) in a.decisions.iter().enumerate() {
                for alt in 0..d.enabled.len() {
                    if alt != d.chosen {
                        let mut p: Vec<usize> = a.decisions[..i].iter().map(|d| d.chosen).collect();
                        p.push(alt);
                        stack.push(p);
                    }
                }
            }
        }
    }
    println!("no nondeterminism in {n} prefixes");
    let r = sched::explore(&spec);
    println!("{:?}", r.stats);
    for v in &r.violations {
        println!("VIOL schedule {:?}: {:?}", v.schedule, v.findings);
        // replay the schedule's own prefix again and compare
        let (a, _, _) = sched::run_once(&spec, &v.schedule);
        println!(" replay of that schedule: end {:?}, decisions {}", a.end, a.decisions.len());
        let parent: Vec<usize> = v.schedule[..v.schedule.len().saturating_sub(1)].to_vec();
        let (b, _, _) = sched::run_once(&spec, &parent);
        println!(" parent run: end {:?}, decisions {}; decision at {}: {:?}", b.end, b.decisions.len(), parent.len(), b.decisions.get(parent.len()).map(|d| &d.enabled));
        let (c, _, _) = sched::run_once(&spec, &parent);
        println!(" parent again: decision at {}: {:?}", parent.len(), c.decisions.get(parent.len()).map(|d| &d.enabled));
        for _ in 0..50 {
            let (d, _, _) = sched::run_once(&spec, &parent);
            if d.steps_log != c.steps_log {
                for i in 0..d.steps_log.len().max(c.steps_log.len()) {
                    if d.steps_log.get(i) != c.steps_log.get(i) {
                        for j in i.saturating_sub(4)..i { println!("   = {}", c.steps_log[j]); }
                        println!("   C {:?}\n   D {:?}", c.steps_log.get(i), d.steps_log.get(i));
                        break;
                    }
                }
                return 1;
            }
        }
    }
    0
}

pub fn sched_trace(name: &str) -> i32 {
    let mut specs = c08_instances(false);
    specs.push(c08_scale_instance());
    let spec = specs.iter().find(|s| s.name == name).expect("instance").clone();
    let (t, p, o) = sched::run_once(&spec, &[]);
    for l in t.steps_log.iter().rev().take(std::env::var("PEARL_MC_TRACE_N").ok().and_then(|s| s.parse().ok()).unwrap_or(14)).rev() {
        println!("{l}");
    }
    println!("end {:?} panics {:?} findings {:?}", t.end, p, o.findings);
    println!("steps {} decisions {} judge {:?}", t.steps, t.decisions.len(), sched::judge(&spec, &t, &p, &o));
    0
}

fn c14_victims() -> Vec<(&'static str, COp, Vec<Op>)> {
    // (name, victim, extra prefix making the victim meaningful)
    vec![
        ("W24", COp::W { k: 0, ts: 10, size: 24, meta: None }, vec![]),
        ("W5K", COp::W { k: 0, ts: 10, size: 5 * 1024, meta: None }, vec![]),
        ("W90K", COp::W { k: 0, ts: 10, size: 90 * 1024, meta: None }, vec![]),
        ("Dactive", COp::D { k: 0, ts: 10 }, vec![Op::w(0, 2)]),
        ("Dclosed", COp::D { k: 0, ts: 10 }, vec![Op::w(0, 2), Op::Rot]),
        // versions in a closed blob and in the active one, the delete's timestamp ties with the
        // active version: a delete applied to some blobs only shows
        ("Dboth-tie", COp::D { k: 0, ts: 10 }, vec![Op::w(0, 2), Op::Rot, Op::w(0, 10)]),
        ("R", COp::R(0), vec![Op::w(0, 2), Op::Rot]),
        ("C", COp::C(0), vec![Op::w(0, 2)]),
        ("RA", COp::RA(0), vec![Op::w(0, 2), Op::Rot, Op::w(0, 3)]),
        ("TryClose", COp::M(Op::TryClose), vec![Op::w(0, 2)]),
        ("Rot", COp::M(Op::Rot), vec![Op::w(0, 2)]),
        ("Fsync", COp::M(Op::Fsync), vec![Op::w(0, 2)]),
        ("TryRestore", COp::M(Op::TryRestore), vec![Op::w(0, 2), Op::TryClose]),
        ("FreeExcess", COp::M(Op::FreeExcess), vec![Op::w(0, 2), Op::Rot, Op::d(0, 3)]),
        ("Wmeta", COp::W { k: 0, ts: 10, size: 24, meta: Some(1) }, vec![]),
        // duplicates disallowed: the existence check over closed blobs precedes the append
        ("W24-nodup", COp::W { k: 0, ts: 10, size: 24, meta: None }, vec![Op::w(1, 2), Op::Rot]),
        ("TryCreate", COp::M(Op::TryCreate), vec![Op::w(0, 2), Op::TryClose]),
        ("CloseBg", COp::M(Op::CloseBg), vec![Op::w(0, 2)]),
        ("RestoreBg", COp::M(Op::RestoreBg), vec![Op::w(0, 2), Op::TryClose]),
        ("CreateBg", COp::M(Op::CreateBg), vec![Op::w(0, 2), Op::TryClose]),
    ]
}

fn c14(a: &Args) -> Report {
    let thorough = a.tier == "thorough";
    let prefixes: Vec<(&str, Vec<Op>, u64)> = vec![
        ("fresh", vec![], 1_000_000),
        ("append", vec![Op::w(1, 1), Op::Rot, Op::w(1, 4), Op::Rst], 1_000_000),
        ("nearfull", vec![Op::w(1, 1)], 2),
    ];
    // 1. uncancelled runs tell how many polls each victim takes
    let mut bases: Vec<SchedSpec> = Vec::new();
    for (pname, prefix, max_data) in &prefixes {
        for mode in [IoMode::Inplace, IoMode::Background] {
            for (vname, victim, extra) in c14_victims() {
                if *pname == "nearfull" && !extra.is_empty() && !matches!(victim, COp::W { .. }) && vname != "Dactive" {
                    continue;
                }
                let mut p = prefix.clone();
                p.extend(extra.iter().cloned());
                let mut s = SchedSpec::new(&format!("C14/{pname}/{mode:?}/{vname}"), mode, p, vec![vec![victim.clone()]]);
                s.wcfg.max_data_in_blob = *max_data;
                if vname.ends_with("-nodup") {
                    s.wcfg.allow_duplicates = false;
                }
                s.followup = vec![COp::R(0), COp::w(1, 50), COp::R(1), COp::M(Op::Rot), COp::w(0, 60), COp::R(0)];
                s.cancel = Some(sched::Cancel { client: 0, op: 0, k: usize::MAX });
                s.bound = if thorough { 3 } else { 2 };
                s.max_execs = if thorough { 30_000 } else { 400 };
                bases.push(s);
            }
        }
    }
    let mut specs: Vec<SchedSpec> = Vec::new();
    let mut poll_counts = Vec::new();
    let mut base_failures = Vec::new();
    for b in &bases {
        let (trace, _, out) = sched::run_once(b, &[]);
        if trace.end != crate::ctl::EndState::Finished {
            base_failures.push(format!("{}: the uncancelled run did not finish: {:?}", b.name, trace.end));
            continue;
        }
        let n = out.polls_of_victim;
        poll_counts.push(json!({"instance": b.name, "polls_uncancelled": n}));
        for k in 1..n.max(1) {
            let mut s = b.clone();
            s.name = format!("{}/k{k}", b.name);
            s.cancel = Some(sched::Cancel { client: 0, op: 0, k });
            specs.push(s);
        }
    }
    let results = run_sched_specs(&specs, a.threads);
    let mut rep = sched_report("C14", a, results, "every victim operation x prefix state x I/O mode x every k (the future is dropped when its k-th poll returns Pending), then bounded-preemption DFS over the placement of the detached I/O jobs and background tasks relative to the follow-up operations; oracle: effect of the victim all-or-nothing in the session and after a restart, everything else linearizable, blobs parse completely", &|_| None);
    if let serde_json::Value::Object(o) = &mut rep.coverage {
        o.insert("victims".into(), json!(poll_counts));
    }
    rep.machinery_errors.extend(base_failures);
    if specs.is_empty() {
        rep.machinery_errors.push("no cancellation instance was generated".into());
    }
    rep
}

fn c12(a: &Args) -> Report {
    let thorough = a.tier == "thorough";
    let alphabet = vec![
        Op::w(0, 1),
        Op::Write { k: 1, ts: 2, meta: None, size: 5 * 1024 },
        Op::d(0, 2),
        Op::Rot,
        Op::TryClose,
        Op::Fsync,
        Op::Rst,
        Op::KillRst,
        Op::KillRstLazy,
        Op::TryCreate,
        // the deferred index dump of a closed blob that took a deletion record fires in-session
        Op::Tick,
    ];
    let mut specs = Vec::new();
    for md in [Some(0u64), Some(1), Some(64), Some(10_000), None] {
        let mut s = SeqSpec::new(&format!("C12/seq/max_dirty={md:?}"), alphabet.clone(), if thorough { 5 } else { 4 });
        s.wcfg.max_dirty = md;
        s.checks = Checks { sync: true, outcome: true, ..Default::default() };
        specs.push(s);
    }
    let mut s = specs[2].clone();
    s.name = "C12/seq/max_dirty=64/background-io".into();
    s.io_mode = IoMode::Background;
    specs.push(s);
    // a blob that is full but too young to be replaced (the replacement request is debounced by
    // the blob's age): the dirty-byte rule applies to it like to any other
    let mut s = specs[2].clone();
    s.name = "C12/seq/max_dirty=64/full-young-blob".into();
    s.wcfg.debounce_ms = u64::MAX;
    s.wcfg.max_data_in_blob = 2;
    s.alphabet = vec![Op::w(0, 1), Op::Write { k: 1, ts: 2, meta: None, size: 5 * 1024 }, Op::d(0, 2), Op::Fsync, Op::TryClose];
    s.checks = Checks { sync: true, ..Default::default() };
    specs.push(s);
    let results = run_specs(&specs, a, &no_known);
    let mut rep = seq_report("C12", a, "model_checking", results, SEQ_RULE);
    let mut sspecs = Vec::new();
    for md in [0u64, 64] {
        for mode in [IoMode::Inplace, IoMode::Background] {
            for (cname, clients) in [
                ("WW", vec![vec![COp::w(0, 10), COp::w(0, 11)]]),
                ("WW|W", vec![vec![COp::w(0, 10), COp::w(0, 11)], vec![COp::w(1, 12)]]),
                ("WW|WF", vec![vec![COp::w(0, 10), COp::w(0, 11)], vec![COp::w(1, 12), COp::M(Op::Fsync)]]),
                // an index dump is in progress (rotation just happened) when the sync is requested
                ("Rot;W;W", vec![vec![COp::M(Op::Rot), COp::w(0, 10), COp::w(0, 11)]]),
                ("Rot|WW", vec![vec![COp::M(Op::Rot)], vec![COp::w(0, 10), COp::w(0, 11)]]),
                ("TryClose|WW", vec![vec![COp::M(Op::TryClose)], vec![COp::w(0, 10), COp::w(0, 11)]]),
            ] {
                let mut s = SchedSpec::new(&format!("C12/sched/max_dirty={md}/{mode:?}/{cname}"), mode, vec![Op::w(1, 1)], clients);
                s.wcfg.max_dirty = Some(md);
                s.sync_check = true;
                s.restart_at_end = false;
                s.bound = if thorough { 3 } else { 2 };
                s.max_execs = if thorough { 80_000 } else { 8_000 };
                s.lock_points = thorough;
                s.read_points = false;
                sspecs.push(s);
            }
        }
    }
    let sres = run_sched_specs(&sspecs, a.threads);
    let srep = sched_report("C12", a, sres, SCHED_RULE, &|_| None);
    merge_reports(&mut rep, srep);
    rep
}

/// Adds the coverage and findings of `b` (another engine of the same property) to `a`.
fn merge_reports(a: &mut Report, b: Report) {
    let num = |v: &serde_json::Value, k: &str| v.get(k).and_then(|x| x.as_u64()).unwrap_or(0);
    let mut cov = a.coverage.clone();
    for k in ["states", "transitions", "traces_validated_against_impl", "evaluations", "distinct_nontrivial"] {
        cov[k] = json!(num(&a.coverage, k) + num(&b.coverage, k));
    }
    cov["exhaustive"] = json!(a.coverage["exhaustive"].as_bool().unwrap_or(false) && b.coverage["exhaustive"].as_bool().unwrap_or(false));
    let mut samples = a.coverage["samples"].as_array().cloned().unwrap_or_default();
    samples.extend(b.coverage["samples"].as_array().cloned().unwrap_or_default());
    cov["samples"] = json!(samples);
    let mut inst = a.coverage["instances"].as_array().cloned().unwrap_or_default();
    inst.extend(b.coverage["instances"].as_array().cloned().unwrap_or_default());
    cov["instances"] = json!(inst);
    cov["rule"] = json!(format!("{} || {}", a.coverage["rule"].as_str().unwrap_or(""), b.coverage["rule"].as_str().unwrap_or("")));
    a.coverage = cov;
    a.assumptions.extend(b.assumptions);
    a.violations.extend(b.violations);
    a.violations.truncate(10);
    a.known.extend(b.known);
    a.machinery_errors.extend(b.machinery_errors);
}

/// Histories shared by the crash and fault engines.
pub fn io_histories(max_len: usize) -> Vec<(String, Vec<Op>, u64)> {
    let ops = [
        Op::w(0, 1),
        Op::Write { k: 1, ts: 2, meta: None, size: 5 * 1024 },
        Op::Write { k: 2, ts: 3, meta: None, size: 90 * 1024 },
        Op::d(0, 4),
        Op::Rot,
        Op::TryClose,
    ];
    let mut out: Vec<(String, Vec<Op>, u64)> = Vec::new();
    let mut frontier: Vec<Vec<Op>> = vec![vec![]];
    for _ in 0..max_len {
        let mut next = Vec::new();
        for h in &frontier {
            for op in ops {
                let mut hh = h.clone();
                hh.push(op);
                next.push(hh);
            }
        }
        for h in &next {
            out.push((h.iter().map(|o| o.short()).collect::<Vec<_>>().join(";"), h.clone(), 1_000_000));
        }
        frontier = next;
    }
    // fixed longer seeds
    out.push(("seed-delete-closed-deferred".into(), vec![Op::w(0, 1), Op::Rot, Op::d(0, 4), Op::Tick, Op::w(1, 5)], 1_000_000));
    out.push(("seed-reopen-append".into(), vec![Op::w(0, 1), Op::Rst, Op::w(1, 2), Op::d(0, 4)], 1_000_000));
    out.push(("seed-two-rotations".into(), vec![Op::w(0, 1), Op::Rot, Op::w(1, 2), Op::Rot, Op::w(0, 5)], 1_000_000));
    out.push(("seed-overflow".into(), vec![Op::w(0, 1), Op::w(1, 2), Op::w(0, 5), Op::w(1, 6)], 2));
    out.push(("seed-restore".into(), vec![Op::w(0, 1), Op::TryClose, Op::TryRestore, Op::w(1, 2)], 1_000_000));
    out
}

fn c11(a: &Args) -> Report {
    fault_part("C11", a, crate::engines::fault::FaultOracle::Containment)
}

fn fault_part(prop: &str, a: &Args, oracle: crate::engines::fault::FaultOracle) -> Report {
    use crate::engines::fault::{self, FaultSpec};
    let thorough = a.tier == "thorough";
    let mut specs = Vec::new();
    for (name, h, max_data) in io_histories(if thorough { 3 } else { 2 }) {
        for mode in [IoMode::Inplace, IoMode::Background] {
            let mut s = FaultSpec::new(&format!("{prop}/fault/{name}/{mode:?}"), mode, h.clone());
            s.wcfg.max_data_in_blob = max_data;
            specs.push(s);
        }
    }
    let r = fault::run(&specs, thorough, false, a.threads, oracle);
    let mut violations = Vec::new();
    let mut machinery = Vec::new();
    for v in &r.violations {
        if v.findings.iter().any(|f| f.kind == "machinery") {
            machinery.push(format!("{}: {:?}", v.spec.name, v.findings));
            continue;
        }
        let desc = format!(
            "[{}] fail {:?} #{} (x{}) on {:?} files with {:?} :: {}",
            v.spec.name, v.plan.op, v.plan.nth, v.plan.repeat, v.plan.class, v.plan.kind, v.findings[0].detail
        );
        violations.push((json!({"engine": "fault", "spec": v.spec, "plan": v.plan, "findings": v.findings}), desc));
    }
    let by_kind = {
        let mut m = std::collections::BTreeMap::new();
        for v in &r.violations {
            *m.entry(v.findings[0].kind.clone()).or_insert(0usize) += 1;
        }
        m
    };
    violations.truncate(12);
    Report {
        property: prop.into(),
        tier: a.tier.clone(),
        seed: a.seed,
        level: "fault_enumeration".into(),
        coverage: json!({
            "evaluations": r.stats.runs,
            "distinct_nontrivial": r.stats.distinct_outcomes,
            "oracle": format!("{oracle:?}"),
            "rule": "for each history: one run per (operation kind in {create, open, write, sync, truncate, rename, remove, mkdir[, read]} x file class x n-th occurrence in the fault-free run x {ENOSPC, EIO, short write keeping 1 / half / all-but-one bytes} x {single fault, the errno persisting over the next 1 (thorough: 2) matching operations}); distinct_nontrivial = distinct vectors of (per-step outcome, step at which the fault fired, quarantine count)",
            "samples": r.stats.samples,
            "exhaustive": true,
            "histories": r.stats.histories,
            "placements_not_reached": r.stats.placements_not_reached,
            "violations_total": r.stats.violations,
            "violations_by_kind": by_kind,
        }),
        assumptions: vec!["one fault (or one burst of consecutive faults of one kind) per run; default schedule (background work runs to quiescence after each operation)".into()],
        wall_s: 0.0,
        violations,
        known: vec![],
        machinery_errors: machinery,
    }
}

fn c06(a: &Args) -> Report {
    let thorough = a.tier == "thorough";
    crash_part("C06", a, crate::engines::crash::CrashOracle::Recovery, if thorough { 3 } else { 2 }, if thorough { 8192 } else { 700 }, if thorough { 40_000 } else { 1_200 })
}

fn crash_part(prop: &str, a: &Args, oracle: crate::engines::crash::CrashOracle, hist_len: usize, fine_limit: usize, max_states: usize) -> Report {
    use crate::engines::crash::{self, CrashSpec};
    let thorough = a.tier == "thorough";
    let mut specs = Vec::new();
    for (name, h, max_data) in io_histories(hist_len) {
        // the orderly variants only: an explicit try_close needs an active blob
        let modes: &[IoMode] = if thorough || name.starts_with("seed") { &[IoMode::Inplace, IoMode::Background] } else { &[IoMode::Inplace] };
        for mode in modes {
            let mut s = CrashSpec::new(&format!("{prop}/crash/{name}/{mode:?}"), *mode, h.clone());
            s.wcfg.max_data_in_blob = max_data;
            s.fine_limit = fine_limit;
            s.second_level_parents = if thorough { 150 } else { 10 };
            specs.push(s);
        }
    }
    let r = crash::run(&specs, a.threads, max_states, oracle);
    let mut violations = Vec::new();
    let mut machinery = Vec::new();
    let known = known_file();
    let mut known_hits: Vec<(String, String)> = Vec::new();
    for v in &r.violations {
        if v.findings.iter().any(|f| f.kind == "machinery") {
            machinery.push(format!("{}: {:?}", v.spec.name, v.findings));
            continue;
        }
        if v.findings.iter().all(|f| f.kind == "torn_header_version_zero") && evidence::is_open(&known, "C06", "torn-header-version-zero") {
            if known_hits.is_empty() {
                known_hits.push((
                    "torn-header-version-zero".into(),
                    format!("power loss tears a new blob's header so that the version field reads 0: init fails with BlobVersion instead of quarantining ({}, {})", v.spec.name, v.state),
                ));
            }
            continue;
        }
        let desc = format!("[{}] {} ; recovery with {} :: {}", v.spec.name, v.state, v.config, v.findings[0].detail);
        violations.push((json!({"engine": "crash", "spec": v.spec, "crash_after_event": v.crash_after_event, "state": v.state, "config": v.config, "findings": v.findings}), desc));
    }
    violations.truncate(24);
    Report {
        property: prop.into(),
        tier: a.tier.clone(),
        seed: a.seed,
        level: "fault_enumeration".into(),
        coverage: json!({
            "evaluations": r.stats.recoveries,
            "distinct_nontrivial": r.stats.distinct_states,
            "oracle": format!("{oracle:?}"),
            "rule": "per history: the ordered log of create/write/sync/truncate/rename events is recorded from the real code; crash after every event; kill = all issued bytes present (large in-flight writes also cut at 4 KiB boundaries); power loss = per file, un-synced bytes lost from every enumerated byte on (every byte for regions up to fine_limit, both ends of every write and page boundaries beyond), tail absent or zero-filled, un-synced writes dropped as subsets, index-header rewrite applied or not, other files all-present or durable-only; each distinct state recovered with init under validate_data on/off x ignore_corrupted on/off; second level: the recovery (init + background work, quarantine mode, validation off and on) from selected first-level states (all kill states first, then evenly spread power-loss states, up to a cap per history) is recorded and killed after each of its file operations, the resulting state recovered and judged by the same oracle; distinct_nontrivial = distinct crash states",
            "samples": r.stats.samples,
            "exhaustive": true,
            "histories": r.stats.histories,
            "log_events": r.stats.log_events,
            "crash_points": r.stats.crash_points,
            "kill_states": r.stats.kill_states,
            "power_loss_states": r.stats.power_loss_states,
            "second_level_states": r.stats.second_level_states,
            "violations_total": r.stats.violations,
            "violations_by_kind": r.stats.violations_by_kind,
        }),
        assumptions: vec![
            "file existence and renames are durable; un-synced data is volatile; a kill between two file operations is indistinguishable on disk from a kill right after the earlier one".into(),
            "the log is recorded under the default schedule (background dumps run to quiescence after each operation)".into(),
        ],
        wall_s: 0.0,
        violations,
        known: known_hits,
        machinery_errors: machinery,
    }
}

fn c09(a: &Args) -> Report {
    let thorough = a.tier == "thorough";
    let (st, viols) = crate::engines::index::run(thorough, a.threads);
    let mut violations = Vec::new();
    let mut machinery = Vec::new();
    for (shape, fs) in &viols {
        if fs.iter().any(|f| f.kind == "machinery") {
            machinery.push(format!("{shape:?}: {fs:?}"));
            continue;
        }
        let desc = format!("index of {} keys of {} bytes, {:?} :: {}: {}", shape.n, shape.key_len, shape.dist, fs[0].kind, fs[0].detail);
        violations.push((json!({"engine": "index", "shape": shape, "findings": fs}), desc));
    }
    violations.truncate(10);
    Report {
        property: "C09".into(),
        tier: a.tier.clone(),
        seed: a.seed,
        level: "model_checking".into(),
        coverage: json!({
            "states": st.shapes,
            "transitions": st.lookups,
            "traces_validated_against_impl": st.shapes,
            "evaluations": st.shapes,
            "distinct_nontrivial": st.shapes,
            "rule": "explicit enumeration of header-multiset shapes per key length: every key count 1..N with one and with two versions per key; one key carrying a run of r versions (r up to two leaf blocks + 2; ascending / descending / tied timestamps / with deletion markers) placed first, middle, last at key counts around the block size; each shape: build in memory, dump with the real serializer, compare get_latest and get_all_with_deletion_marker for every present key and for absent keys below, between and above, count, reopen, load back; transitions = lookups compared; every shape is distinct",
            "samples": st.samples,
            "exhaustive": true,
            "max_keys": st.max_keys,
            "shapes_per_key_len": st.per_key_len,
        }),
        assumptions: vec!["the index is driven through the IndexProbe hook (same IndexStruct / BPTreeFileIndex code the storage uses)".into()],
        wall_s: 0.0,
        violations,
        known: vec![],
        machinery_errors: machinery,
    }
}

fn c05(a: &Args) -> Report {
    let thorough = a.tier == "thorough";
    let (st, viols) = crate::engines::bytes::run(thorough, a.threads);
    let mut violations = Vec::new();
    let mut machinery = Vec::new();
    for (name, fs) in &viols {
        if fs.iter().any(|f| f.kind == "machinery") {
            machinery.push(format!("{name}: {fs:?}"));
            continue;
        }
        violations.push((json!({"engine": "bytes", "case": name, "findings": fs}), format!("[{name}] {}: {}", fs[0].kind, fs[0].detail)));
    }
    violations.truncate(10);
    Report {
        property: "C05".into(),
        tier: a.tier.clone(),
        seed: a.seed,
        level: "fault_enumeration".into(),
        coverage: json!({
            "evaluations": st.roundtrip_checks + st.corruption_cases,
            "distinct_nontrivial": st.corruption_cases + st.roundtrip_checks,
            "rule": "round trip: value lengths {0..3, around 4096-H, 4095..4097, around 81920-H, 81919..81921, 200000[, 1000000]} x 6 metadata shapes (none, small, several entries, 1 KiB, 5 KiB with an empty-string key, 100 KiB) x index {in memory, on disk, regenerated} x I/O mode x key length {4, 33}, every way of reading (read, read_with, load, load_data, load_meta) compared byte for byte; corruption: for a 24 B, 900 B, 5 KiB and 90 KiB record every enumerated data-byte position x {xor 01, 80, ff, 2-byte ffff, 4-byte ffffffff, sparse 80000001; for the 24 B record all single-bit and all two-bit flips in a 32-bit window} applied through a second descriptor with the index in memory and on disk, plus between sessions with validation on/off; every case is distinct",
            "samples": st.samples,
            "exhaustive": true,
            "roundtrip_configs": st.roundtrip_configs,
            "roundtrip_checks": st.roundtrip_checks,
            "corruption_cases": st.corruption_cases,
            "corruptions_answered_with_error_or_quarantine": st.corruptions_detected,
        }),
        assumptions: vec!["corruptions of at most 32 contiguous bits (the CRC32C guarantee); metadata content carries no checksum of its own and is out of scope of the corruption part".into()],
        wall_s: 0.0,
        violations,
        known: vec![],
        machinery_errors: machinery,
    }
}

fn c16(a: &Args) -> Report {
    let thorough = a.tier == "thorough";
    let (st, viols) = crate::engines::tools::run(thorough, a.threads);
    let mut violations = Vec::new();
    let mut machinery = Vec::new();
    for (name, damage, fs) in &viols {
        if fs.iter().any(|f| f.kind == "machinery") {
            machinery.push(format!("{name} {damage:?}: {fs:?}"));
            continue;
        }
        violations.push((json!({"engine": "tools", "blob": name, "damage": damage, "findings": fs}), format!("[blob {name}] {damage:?} :: {}: {}", fs[0].kind, fs[0].detail)));
    }
    violations.truncate(16);
    Report {
        property: "C16".into(),
        tier: a.tier.clone(),
        seed: a.seed,
        level: "fault_enumeration".into(),
        coverage: json!({
            "evaluations": st.cases + st.index_checks,
            "distinct_nontrivial": st.cases,
            "rule": "blobs + index files written by the real storage for a set of small histories; per blob: the intact file, every truncation length and every byte position x {xor 01, xor ff} (in records larger than 3 KB: every position near headers / boundaries and a stride inside the data); each damaged input goes through validate_blob, recovery_blob with and without skipping, migrate_blob, move_and_recover_blob in a child process under an address-space limit, outputs are parsed by an independent parser and opened with Storage; index files: validate_index / read_index / summary collectors on the intact file, validate_index on every 3rd truncation length and every 2nd byte with a flipped bit; every case is distinct",
            "samples": st.samples,
            "exhaustive": true,
            "blobs": st.blobs,
            "truncations": st.truncations,
            "flips": st.flips,
            "flips_by_position_class": st.by_position_class,
            "excluded_by_rule_meta_content": st.excluded_meta_content,
            "excluded_by_rule_blob_header_version_flags": st.excluded_blob_header_unvalidated,
            "not_resyncable_size_field_damage": st.not_resyncable,
            "child_process_deaths": st.child_deaths,
            "violations_total": st.violations,
            "violations_by_kind": st.violations_by_kind,
        }),
        assumptions: vec![
            "validation oracle: an independent parser of the blob format (magic, header CRC, data CRC, tiling); metadata content and the blob header's version/flags carry no checksum and are excluded from the accept/reject comparison (counted)".into(),
            "with skipping, records behind a damaged record are required only when the damage leaves the record's length fields intact".into(),
        ],
        wall_s: 0.0,
        violations,
        known: vec![],
        machinery_errors: machinery,
    }
}

fn c17(a: &Args) -> Report {
    let (st, viols) = crate::engines::compat::run(a.threads);
    let mut violations = Vec::new();
    let mut machinery = Vec::new();
    for (case, fs) in &viols {
        if fs.iter().any(|f| f.detail.contains("machinery")) {
            machinery.push(format!("{case:?}: {fs:?}"));
            continue;
        }
        violations.push((json!({"engine": "compat", "case": case, "findings": fs}), format!("[corpus {}] {:?} :: {}: {}", case.dir, case.variant, fs[0].kind, fs[0].detail)));
    }
    violations.truncate(10);
    Report {
        property: "C17".into(),
        tier: a.tier.clone(),
        seed: a.seed,
        level: "exploration".into(),
        coverage: json!({
            "evaluations": st.cases,
            "distinct_nontrivial": st.cases,
            "rule": "committed corpus written by the pinned tree (sha in corpus/data/MANIFEST.json): for every directory, every subset of its index files removed x eager / lazy init, all recorded answers (read, contains, read_all[_with_deletion_marker], read_with x3, check_filters for every key incl. absent ones; counts) compared; each directory opened with every other key size; blob version field set to {0,2,3,255,u32::MAX}; index version byte set to every value 0..255; every case is distinct",
            "samples": st.samples,
            "exhaustive": true,
            "corpus_sha": st.corpus_sha,
            "directories": st.dirs,
            "subset_cases": st.subset_cases,
            "mismatch_cases": st.mismatch_cases,
            "keys_compared": st.keys_compared,
        }),
        assumptions: vec!["the claim is limited to the committed corpus (5 directories: key sizes 4, 8, 33, 1000; bloom off / 70 / 512 / 1024 bits / default formula; markers, metadata, timestamp ties, a 5 KiB value, a three-level index)".into()],
        wall_s: 0.0,
        violations,
        known: vec![],
        machinery_errors: machinery,
    }
}
