//! Applies operations to the reference model and compares observations of the real storage
//! with what the model defines.

use std::collections::BTreeMap;

use crate::model::{KeyId, MetaId, RefStore, Res, RR};
use crate::world::{self, KeyObs, Obs, Op, Outcome};

/// What the model says the call returns.
#[derive(Debug, Clone, PartialEq, Eq)]
pub enum Expect {
    Done,
    Res(Res),
    Count(u64),
}

/// Applies `op` to the model. `val_tag`: tag of the value a write stores.
pub fn apply_model(m: &mut RefStore, op: Op, val_tag: &str, key_len: usize) -> Expect {
    match op {
        Op::Write { k, ts, meta, size } => {
            let dl = world::record_disk_len(key_len, meta.unwrap_or(0), size as u64);
            m.write(k, ts, meta, val_tag.to_string(), dl);
            Expect::Res(Res::Ok)
        }
        Op::Delete { k, ts, oip, meta } => {
            let dl = world::record_disk_len(key_len, meta, 0);
            Expect::Count(m.delete(k, ts, oip, meta, dl))
        }
        Op::Rot => {
            m.force_update(true);
            Expect::Done
        }
        Op::ForceNever => {
            m.force_update(false);
            Expect::Done
        }
        Op::TryClose => Expect::Res(m.try_close()),
        Op::TryCreate => Expect::Res(m.try_create()),
        Op::TryRestore => Expect::Res(m.try_restore()),
        Op::CloseBg => {
            // inapplicable requests are no-ops; the dump request that follows still runs
            let _ = m.try_close();
            m.dump_closed();
            Expect::Done
        }
        Op::CreateBg => {
            let _ = m.try_create();
            Expect::Done
        }
        Op::RestoreBg => {
            let _ = m.try_restore();
            Expect::Done
        }
        Op::FreeExcess => {
            m.dump_closed();
            Expect::Done
        }
        Op::Offload { .. } => {
            m.offload();
            Expect::Done
        }
        Op::Fsync => Expect::Res(Res::Ok),
        Op::Tick => {
            m.tick(200);
            Expect::Done
        }
        Op::TickShort => {
            m.tick(45);
            Expect::Done
        }
        Op::DamageRst => {
            m.quarantine_highest();
            m.restart(false);
            Expect::Res(Res::Ok)
        }
        Op::DamageRstLazy => {
            let had_files = m.blobs().count() > 0;
            m.quarantine_highest();
            m.restart_ext(true, had_files);
            Expect::Res(Res::Ok)
        }
        Op::Rst => {
            m.restart(false);
            Expect::Res(Res::Ok)
        }
        Op::RstLazy => {
            m.restart(true);
            Expect::Res(Res::Ok)
        }
        // every acknowledged byte is in its file: content-wise a kill inside the process is a restart
        Op::KillRst | Op::RstOtherHashers => {
            m.restart(false);
            Expect::Res(Res::Ok)
        }
        Op::KillRstLazy => {
            m.restart(true);
            Expect::Res(Res::Ok)
        }
    }
}

#[derive(Debug, Clone, PartialEq, Eq, Hash, PartialOrd, Ord, serde::Serialize, serde::Deserialize)]
pub struct Finding {
    /// stable identifier of the kind of mismatch (used to match known findings)
    pub kind: String,
    pub detail: String,
}

pub fn finding(kind: &str, detail: impl Into<String>) -> Finding {
    Finding {
        kind: kind.to_string(),
        detail: detail.into(),
    }
}

pub fn compare_outcome(op: Op, got: &Outcome, want: &Expect) -> Vec<Finding> {
    let ok = match (got, want) {
        (Outcome::Done, Expect::Done) => true,
        (Outcome::Res(r, _), Expect::Res(w)) => r == w,
        (Outcome::Count(Ok(n)), Expect::Count(w)) => n == w,
        _ => false,
    };
    if ok {
        vec![]
    } else {
        vec![finding(
            "outcome",
            format!("{} returned {:?}, model says {:?}", op.short(), got, want),
        )]
    }
}

fn strip_ts(r: &RR) -> RR {
    match r {
        RR::Found { val, .. } => RR::Found {
            ts: 0,
            val: val.clone(),
        },
        o => o.clone(),
    }
}

fn strip_val(r: &RR) -> RR {
    match r {
        RR::Found { ts, .. } => RR::Found {
            ts: *ts,
            val: String::new(),
        },
        o => o.clone(),
    }
}

/// C01: read / contains against the model head.
pub fn compare_latest(m: &RefStore, obs: &Obs) -> Vec<Finding> {
    let mut out = Vec::new();
    for (k, ko) in &obs.keys {
        let want = m.read(*k);
        if strip_ts(&want) != ko.read {
            out.push(finding(
                "read",
                format!("read(k{k}) = {:?}, model {:?}", ko.read, strip_ts(&want)),
            ));
        }
        if strip_val(&want) != ko.contains {
            out.push(finding(
                "contains",
                format!("contains(k{k}) = {:?}, model {:?}", ko.contains, strip_val(&want)),
            ));
        }
    }
    out
}

/// C02: version lists and metadata lookups.
pub fn compare_history(m: &RefStore, obs: &Obs) -> Vec<Finding> {
    let mut out = Vec::new();
    for (k, ko) in &obs.keys {
        let want = m.read_all_with_deletion_marker(*k);
        match &ko.all_wdm {
            Ok(got) if *got == want => {}
            got => out.push(finding(
                "read_all_with_deletion_marker",
                format!("read_all_with_deletion_marker(k{k}) = {got:?}, model {want:?}"),
            )),
        }
        let want = m.read_all(*k);
        match &ko.all {
            Ok(got) if *got == want => {}
            got => out.push(finding(
                "read_all",
                format!("read_all(k{k}) = {got:?}, model {want:?}"),
            )),
        }
        for (mid, got) in &ko.with {
            let want = strip_ts(&m.read_with(*k, *mid));
            if *got != want {
                out.push(finding(
                    "read_with",
                    format!("read_with(k{k}, m{mid}) = {got:?}, model {want:?}"),
                ));
            }
        }
    }
    out
}

/// C10 (storage level): no filter says "absent" for a stored key; reads find stored keys.
pub fn compare_filters(m: &RefStore, obs: &Obs) -> Vec<Finding> {
    let mut out = Vec::new();
    let stored = m.stored_keys();
    for (k, ko) in &obs.keys {
        if stored.contains(k) {
            if ko.check_filters == Some(false) {
                out.push(finding(
                    "check_filters",
                    format!("check_filters(k{k}) = Some(false) for a stored key"),
                ));
            }
            if !ko.check_filter_maybe {
                out.push(finding(
                    "check_filter",
                    format!("check_filter(k{k}) = NotContains for a stored key"),
                ));
            }
            if ko.merged_filter_maybe == Some(false) {
                out.push(finding(
                    "get_filter",
                    format!("the merged filter returned by get_filter answers NotContains for the stored key k{k}"),
                ));
            }
        }
    }
    out
}

/// C15: counts, ids, sizes.
pub fn compare_accounting_obs(m: &RefStore, obs: &Obs, listing: &[(String, u64)]) -> Vec<Finding> {
    let mut out = Vec::new();
    if obs.records_count != m.records_count() {
        out.push(finding(
            "records_count",
            format!("records_count = {}, model {}", obs.records_count, m.records_count()),
        ));
    }
    let want = m.records_count_detailed();
    if obs.detailed != want {
        // compare counts and labels separately so that a labelling defect cannot mask a counting one
        let got_counts: Vec<usize> = obs.detailed.iter().map(|x| x.1).collect();
        let want_counts: Vec<usize> = want.iter().map(|x| x.1).collect();
        if got_counts != want_counts {
            out.push(finding(
                "records_count_detailed.counts",
                format!("records_count_detailed = {:?}, model {:?}", obs.detailed, want),
            ));
        } else {
            let closed_n = m.closed.iter().flatten().count();
            let closed_ok = obs.detailed[..closed_n] == want[..closed_n];
            if !closed_ok {
                out.push(finding(
                    "records_count_detailed.closed_ids",
                    format!("records_count_detailed = {:?}, model {:?}", obs.detailed, want),
                ));
            } else {
                out.push(finding(
                    "records_count_detailed.active_label",
                    format!(
                        "records_count_detailed labels the active blob {} but its id is {}",
                        obs.detailed.last().map_or(0, |x| x.0),
                        want.last().map_or(0, |x| x.0)
                    ),
                ));
            }
        }
    }
    if obs.in_active != m.records_count_in_active() {
        out.push(finding(
            "records_count_in_active_blob",
            format!(
                "records_count_in_active_blob = {:?}, model {:?}",
                obs.in_active,
                m.records_count_in_active()
            ),
        ));
    }
    if obs.blobs_count != m.blobs_count() {
        out.push(finding(
            "blobs_count",
            format!(
                "blobs_count = {}, model {} (emptied slots: {})",
                obs.blobs_count,
                m.blobs_count(),
                m.closed.iter().filter(|s| s.is_none()).count()
            ),
        ));
    }
    let want_next = m.ever_ids.iter().next_back().map_or(0, |x| x + 1);
    if obs.next_blob_id != want_next {
        out.push(finding(
            "next_blob_id",
            format!("next_blob_id = {}, model {}", obs.next_blob_id, want_next),
        ));
    }
    if obs.corrupted != m.corrupted.len() {
        out.push(finding(
            "corrupted_blobs_count",
            format!("corrupted_blobs_count = {}, model {}", obs.corrupted, m.corrupted.len()),
        ));
    }
    // disk_used against the directory listing
    let on_disk: u64 = listing
        .iter()
        .filter(|(n, _)| n.ends_with(".blob") || n.ends_with(".index"))
        .map(|(_, l)| *l)
        .sum();
    if obs.disk_used != on_disk {
        let blobs_only: u64 = listing
            .iter()
            .filter(|(n, _)| n.ends_with(".blob"))
            .map(|(_, l)| *l)
            .sum();
        out.push(finding(
            "disk_used",
            format!(
                "disk_used = {}, files in the work directory occupy {} ({} in blobs): {:?}",
                obs.disk_used, on_disk, blobs_only, listing
            ),
        ));
    }
    // blob file lengths against the model (physically appended records)
    for b in m.blobs() {
        let name = format!("t.{}.blob", b.id);
        let want = m.blob_file_len(b);
        match listing.iter().find(|(n, _)| *n == name) {
            Some((_, l)) if *l == want => {}
            got => out.push(finding(
                "blob_file_len",
                format!("{name}: length {:?}, model {}", got.map(|x| x.1), want),
            )),
        }
    }
    out
}

/// Expected observation derived from the model (filters and sizes are not defined by it).
pub fn model_key_obs(m: &RefStore, k: KeyId, metas: &[MetaId]) -> KeyObs {
    KeyObs {
        read: strip_ts(&m.read(k)),
        contains: strip_val(&m.read(k)),
        all_wdm: Ok(m.read_all_with_deletion_marker(k)),
        all: Ok(m.read_all(k)),
        with: metas.iter().map(|mm| (*mm, strip_ts(&m.read_with(k, *mm)))).collect(),
        check_filters: None,
        check_filter_maybe: true,
        merged_filter_maybe: None,
    }
}

/// The query part of an observation (what C03/C04 require to be unchanged).
pub fn query_part(obs: &Obs) -> BTreeMap<KeyId, (RR, RR, Result<Vec<crate::model::ListEntry>, String>, Vec<(MetaId, RR)>)> {
    obs.keys
        .iter()
        .map(|(k, o)| (*k, (o.read.clone(), o.contains.clone(), o.all_wdm.clone(), o.with.clone())))
        .collect()
}
