//! Generates the C17 corpus with the tree it is built against (the pinned release).
mod observe;

use std::path::{Path, PathBuf};

use bytes::Bytes;
use observe::*;
use pearl::{ArrayKey, Storage};
use serde_json::json;

fn value(label: &str, len: usize) -> Bytes {
    let mut v = Vec::with_capacity(len);
    v.extend_from_slice(label.as_bytes());
    let mut x: u32 = 0x1234_5678 ^ len as u32;
    while v.len() < len {
        x = x.wrapping_mul(1_664_525).wrapping_add(1_013_904_223);
        v.push((x >> 24) as u8);
    }
    v.truncate(len);
    Bytes::from(v)
}

async fn rotate<const N: usize>(s: &Storage<ArrayKey<N>>, want_blobs: usize) {
    s.force_update_active_blob(|_| true).await;
    for _ in 0..2000 {
        if s.blobs_count().await >= want_blobs {
            break;
        }
        tokio::time::sleep(std::time::Duration::from_millis(5)).await;
    }
    assert!(s.blobs_count().await >= want_blobs, "rotation did not happen");
}

/// Three blobs with markers, metas, timestamp ties and a 5 KiB value; blob 2 stays active.
async fn standard<const N: usize>(dir: &Path, bloom: Bloom) -> serde_json::Value {
    let mut s: Storage<ArrayKey<N>> = builder(dir, bloom).build().unwrap();
    s.init().await.unwrap();
    let k = |i: u32| -> ArrayKey<N> { key_bytes(i, N).into() };
    // blob 0
    s.write(k(1), value("b0k1t10", 30), ts(10)).await.unwrap();
    s.write(k(2), value("b0k2t10", 30), ts(10)).await.unwrap();
    s.write_with(k(3), value("b0k3t5mA", 40), ts(5), meta_of(1)).await.unwrap();
    s.write(k(4), value("b0k4t7", 5 * 1024), ts(7)).await.unwrap();
    s.write(k(5), value("b0k5t1", 10), ts(1)).await.unwrap();
    s.write(k(5), value("b0k5t3", 10), ts(3)).await.unwrap();
    s.write(k(5), value("b0k5t2", 10), ts(2)).await.unwrap();
    s.write(k(7), value("b0k7t4", 0), ts(4)).await.unwrap();
    rotate(&s, 2).await;
    // blob 1
    s.write(k(1), value("b1k1t10", 31), ts(10)).await.unwrap(); // tie with blob 0
    s.delete(k(2), ts(12), false).await.unwrap(); // marker above the put in blob 0 (also lands in blob 0)
    s.write_with(k(3), value("b1k3t6mB", 41), ts(6), meta_of(2)).await.unwrap();
    s.write(k(6), value("b1k6t9", 20), ts(9)).await.unwrap();
    s.delete(k(5), ts(2), false).await.unwrap(); // marker below the newest put
    rotate(&s, 3).await;
    // blob 2 (active)
    s.write(k(2), value("b2k2t11", 32), ts(11)).await.unwrap(); // older than the marker
    s.write_with(k(3), value("b2k3t6mA", 42), ts(6), meta_of(1)).await.unwrap(); // tie with blob 1
    s.delete_with(k(6), ts(9), meta_of(1), false).await.unwrap(); // tie: marker vs put
    s.write(k(8), value("b2k8t1", 16), ts(1)).await.unwrap();
    let keys: Vec<u32> = (0..=9).collect();
    // wait until closed blobs are dumped
    for _ in 0..2000 {
        let names: Vec<String> = std::fs::read_dir(dir).unwrap().flatten().map(|e| e.file_name().to_string_lossy().to_string()).collect();
        if names.iter().any(|n| n == "c.0.index") && names.iter().any(|n| n == "c.1.index") {
            break;
        }
        tokio::time::sleep(std::time::Duration::from_millis(5)).await;
    }
    let answers = observe(&s, &keys).await;
    s.close().await.unwrap();
    json!({"key_len": N, "keys": keys, "answers": answers})
}

/// One closed blob whose index has an inner tree level (1000-byte keys, fan-out 5).
async fn tree(dir: &Path) -> serde_json::Value {
    const N: usize = 1000;
    let mut s: Storage<ArrayKey<N>> = builder(dir, Bloom::Bits(512)).build().unwrap();
    s.init().await.unwrap();
    let k = |i: u32| -> ArrayKey<N> { key_bytes(i, N).into() };
    for i in 0..24u32 {
        s.write(k(2 * i + 1), value(&format!("tk{}t{}", 2 * i + 1, i % 3), 12), ts((i % 3) as u64)).await.unwrap();
    }
    for v in 0..5u64 {
        s.write(k(21), value(&format!("tk21v{v}"), 8), ts(10 + v)).await.unwrap();
    }
    s.delete(k(9), ts(50), false).await.unwrap();
    let keys: Vec<u32> = (0..50).collect();
    let answers = observe(&s, &keys).await;
    s.close().await.unwrap();
    json!({"key_len": N, "keys": keys, "answers": answers})
}

fn main() {
    let out: PathBuf = std::env::args().nth(1).expect("output dir").into();
    let sha = std::env::args().nth(2).unwrap_or_default();
    std::fs::create_dir_all(&out).unwrap();
    let rt = tokio::runtime::Builder::new_multi_thread().worker_threads(2).enable_all().build().unwrap();
    let mut manifest = serde_json::Map::new();
    rt.block_on(async {
        let d = out.join("k4-bits1024");
        manifest.insert("k4-bits1024".into(), json!({"bloom": "bits1024", "info": standard::<4>(&d, Bloom::Bits(1024)).await}));
        let d = out.join("k8-nobloom");
        manifest.insert("k8-nobloom".into(), json!({"bloom": "off", "info": standard::<8>(&d, Bloom::Off).await}));
        let d = out.join("k33-bits70");
        manifest.insert("k33-bits70".into(), json!({"bloom": "bits70", "info": standard::<33>(&d, Bloom::Bits(70)).await}));
        let d = out.join("k4-scaled");
        manifest.insert("k4-scaled".into(), json!({"bloom": "scaled", "info": standard::<4>(&d, Bloom::Scaled).await}));
        let d = out.join("k1000-tree");
        manifest.insert("k1000-tree".into(), json!({"bloom": "bits512", "info": tree(&d).await}));
        // one small directory per key length class of the filter's hash function (short inputs,
        // 9..16 bytes, block loop with and without a tail, exact multiples of the block size)
        macro_rules! hashlen {
            ($($n:literal),*) => {$(
                let name = format!("k{}-hash", $n);
                let d = out.join(&name);
                manifest.insert(name, json!({"bloom": "bits256", "info": standard::<$n>(&d, Bloom::Bits(256)).await}));
            )*};
        }
        hashlen!(1, 2, 3, 5, 7, 9, 12, 15, 16, 17, 24, 31, 32, 48, 63, 64, 65, 100, 128, 255);
        // other numbers of hash functions than the default two (the seeds of hasher i are derived
        // from i), with bit counts that are and are not multiples of 64
        for (k, bits) in [(1usize, 200usize), (3, 512), (4, 333), (5, 1024), (8, 4099)] {
            let name = format!("k4-bits{bits}-hashers{k}");
            let d = out.join(&name);
            manifest.insert(name, json!({"bloom": format!("bits{bits}k{k}"), "info": standard::<4>(&d, Bloom::BitsK(bits, k)).await}));
        }
    });
    let m = json!({"generated_by": "corpus/gen built against qoollo/pearl", "sha": sha, "dirs": manifest});
    std::fs::write(out.join("MANIFEST.json"), serde_json::to_string_pretty(&m).unwrap()).unwrap();
    println!("corpus written to {}", out.display());
}
