//! Property registry: which engine instances decide which property, at which tier.

use std::time::Instant;

use serde_json::json;

use crate::ctl::IoMode;
use crate::engines::seq::{self, Checks, SeqSpec};
use crate::evidence::{self, Report};
use crate::world::{BloomCfg, Op};

pub struct Args {
    pub prop: String,
    pub tier: String,
    pub seed: i64,
    pub threads: usize,
}

fn parse(args: &[String]) -> Args {
    let mut a = Args {
        prop: String::new(),
        tier: std::env::var("VERIF_TIER").unwrap_or_else(|_| "quick".into()),
        seed: std::env::var("VERIF_SEED").ok().and_then(|s| s.parse().ok()).unwrap_or(0),
        threads: std::thread::available_parallelism().map_or(8, |n| n.get()),
    };
    let mut i = 0;
    while i < args.len() {
        match args[i].as_str() {
            "--tier" => {
                a.tier = args[i + 1].clone();
                i += 1;
            }
            "--threads" => {
                a.threads = args[i + 1].parse().unwrap();
                i += 1;
            }
            s if a.prop.is_empty() => a.prop = s.to_string(),
            s => {
                eprintln!("unexpected argument {s}");
                std::process::exit(2)
            }
        }
        i += 1;
    }
    a
}

pub fn check_cmd(args: &[String]) -> i32 {
    let a = parse(args);
    let t0 = Instant::now();
    let mut rep = match a.prop.as_str() {
        "C01" => c01(&a),
        "C02" => c02(&a),
        "C03" => c03(&a),
        "C04" => c04(&a),
        "C07" => c07(&a),
        "C10" => c10(&a),
        "C13" => c13(&a),
        "C15" => c15(&a),
        p => {
            eprintln!("no check for {p}");
            return 2;
        }
    };
    rep.wall_s = t0.elapsed().as_secs_f64();
    rep.write_and_exit_code()
}

pub fn selftest() -> i32 {
    let spec = SeqSpec::new("selftest", vec![], 0);
    let h = vec![Op::w(0, 1), Op::Rot, Op::d(0, 2), Op::Tick, Op::w(1, 1), Op::Rst, Op::w(0, 3)];
    let mut spec = spec;
    spec.checks = Checks { outcome: true, latest: true, history: true, accounting: true, filters: true, transparent: true, no_harm: true, alive: true, sync: false, rotation: false };
    for mode in [IoMode::Inplace, IoMode::Background] {
        spec.io_mode = mode;
        let r1 = seq::run_history_dyn(&spec, &h);
        let r2 = seq::run_history_dyn(&spec, &h);
        println!("mode {:?}: end {:?} outcome {:?}", mode, r1.end, r1.outcome);
        println!("  obs {:?}", r1.obs_after.as_ref().map(|o| &o.keys[&0]));
        println!("  listing {:?}", r1.listing);
        let f = seq::judge(&spec, &h, &r1);
        println!("  findings: {:#?}", f);
        assert_eq!(r1.obs_after, r2.obs_after, "nondeterministic observation");
        assert_eq!(r1.listing, r2.listing);
    }
    0
}

fn no_known(_: &SeqSpec, _: &[Op], _: &crate::oracle::Finding) -> Option<String> {
    None
}

fn seq_report(prop: &str, a: &Args, level: &str, results: Vec<seq::SeqResult>, rule: &str) -> Report {
    let mut violations = Vec::new();
    let mut states = 0;
    let mut transitions = 0;
    let mut distinct = 0;
    let mut samples = Vec::new();
    let mut per_spec = Vec::new();
    let mut machinery = Vec::new();
    let mut known = Vec::new();
    let mut exhaustive = true;
    for r in &results {
        states += r.stats.states;
        transitions += r.stats.transitions;
        distinct += r.stats.distinct_observations;
        samples.extend(r.stats.samples.iter().cloned());
        if r.stats.cap_hit {
            exhaustive = false;
        }
        if r.stats.abstraction_divergences > 0 {
            // reported, not fatal: see DESIGN 2.3
        }
        per_spec.push(json!(r.stats));
        for v in &r.violations {
            if v.findings.iter().any(|f| f.kind == "machinery") {
                machinery.push(format!("{}: {:?}", v.spec, v.findings));
                continue;
            }
            let desc = format!("[{}] {} :: {}", v.spec, v.history.join(" "), v.findings[0].detail);
            violations.push((json!({"engine": "seq", "spec": v.spec, "history": v.history, "findings": v.findings}), desc));
        }
        for (k, h) in &r.known {
            known.push((k.clone(), format!("witness {}", h.join(" "))));
        }
    }
    violations.truncate(10);
    Report {
        property: prop.into(),
        tier: a.tier.clone(),
        seed: a.seed,
        level: level.into(),
        coverage: json!({
            "states": states,
            "transitions": transitions,
            "traces_validated_against_impl": transitions,
            "evaluations": transitions,
            "distinct_nontrivial": distinct,
            "rule": rule,
            "samples": samples,
            "exhaustive": exhaustive,
            "instances": per_spec,
        }),
        assumptions: vec![
            "sequential histories under the zero-preemption default schedule; background work runs to quiescence after every operation".into(),
            "states merged when the reference model state is equal (guarded by a digest of the implementation's observable state)".into(),
        ],
        wall_s: 0.0,
        violations,
        known,
        machinery_errors: machinery,
    }
}

fn c01(a: &Args) -> Report {
    let thorough = a.tier == "thorough";
    let mut alphabet = Vec::new();
    for k in [0u8, 1] {
        for ts in [1u64, 2] {
            alphabet.push(Op::w(k, ts));
            alphabet.push(Op::d(k, ts));
        }
    }
    alphabet.extend([Op::Rot, Op::Rst, Op::RstLazy]);
    let mut specs = Vec::new();
    let mut s = SeqSpec::new("C01/placement/L4/bloom-1024", alphabet.clone(), if thorough { 6 } else { 4 });
    s.checks = Checks { outcome: true, latest: true, ..Default::default() };
    specs.push(s.clone());
    for (kl, bloom) in [(1usize, BloomCfg::Default), (33, BloomCfg::None), (8, BloomCfg::Bits(70))] {
        let mut t = s.clone();
        t.name = format!("C01/placement/L{kl}/{bloom:?}");
        t.key_len = kl;
        t.wcfg.bloom = bloom;
        t.depth = s.depth - 1;
        specs.push(t);
    }
    let results: Vec<_> = specs.iter().map(|s| seq::bfs(s, a.threads, &no_known)).collect();
    let _ = evidence::verif_root();
    seq_report("C01", a, "model_checking", results, "BFS over operation sequences; a state is the canonical reference-model state; distinct_nontrivial counts distinct query-answer vectors observed")
}

fn run_specs(specs: &[SeqSpec], a: &Args, known: &seq::KnownFn) -> Vec<seq::SeqResult> {
    specs.iter().map(|s| seq::bfs(s, a.threads, known)).collect()
}

const SEQ_RULE: &str = "BFS over operation sequences; a state is the canonical reference-model state; every (state, op) transition is executed on the real storage; distinct_nontrivial counts distinct query-answer vectors observed";

fn c02(a: &Args) -> Report {
    let thorough = a.tier == "thorough";
    let mut alphabet = Vec::new();
    for ts in [1u64, 2] {
        for meta in [None, Some(1u8), Some(2)] {
            alphabet.push(Op::Write { k: 0, ts, meta, size: 24 });
        }
        for oip in [true, false] {
            alphabet.push(Op::Delete { k: 0, ts, oip, meta: 0 });
        }
    }
    alphabet.push(Op::Delete { k: 0, ts: 2, oip: false, meta: 1 });
    alphabet.push(Op::Rot);
    alphabet.push(Op::w(1, 1));
    let mut specs = Vec::new();
    for dup in [true, false] {
        let mut s = SeqSpec::new(&format!("C02/allow_duplicates={dup}"), alphabet.clone(), if thorough { 5 } else { 4 });
        s.wcfg.allow_duplicates = dup;
        s.metas = vec![0, 1, 2];
        s.checks = Checks { outcome: true, latest: true, history: true, ..Default::default() };
        specs.push(s);
    }
    // deeper on a smaller alphabet: three blobs contributing, markers below live puts
    let small = vec![
        Op::Write { k: 0, ts: 1, meta: Some(1), size: 24 },
        Op::Write { k: 0, ts: 2, meta: Some(2), size: 24 },
        Op::w(0, 3),
        Op::Delete { k: 0, ts: 2, oip: true, meta: 0 },
        Op::Delete { k: 0, ts: 1, oip: false, meta: 0 },
        Op::Rot,
    ];
    let mut s = SeqSpec::new("C02/deep-small", small, if thorough { 8 } else { 6 });
    s.metas = vec![0, 1, 2];
    s.checks = Checks { outcome: true, latest: true, history: true, ..Default::default() };
    specs.push(s);
    let results = run_specs(&specs, a, &no_known);
    seq_report("C02", a, "model_checking", results, SEQ_RULE)
}

fn lifecycle_alphabet() -> Vec<Op> {
    vec![
        Op::TryClose,
        Op::TryCreate,
        Op::TryRestore,
        Op::Rot,
        Op::ForceNever,
        Op::FreeExcess,
        Op::Offload { level: 0 },
        Op::Offload { level: 1 },
        Op::Fsync,
        Op::Tick,
    ]
}

fn c04(a: &Args) -> Report {
    let thorough = a.tier == "thorough";
    let mut alphabet = vec![Op::w(0, 1), Op::w(1, 2), Op::w(0, 2), Op::d(0, 2)];
    alphabet.extend(lifecycle_alphabet());
    let mut specs = Vec::new();
    for (gs, depth) in [(2usize, if thorough { 5 } else { 4 }), (3, if thorough { 5 } else { 3 }), (8, if thorough { 4 } else { 3 })] {
        let mut s = SeqSpec::new(&format!("C04/seq/group{gs}"), alphabet.clone(), depth);
        s.wcfg.group_size = gs;
        s.checks = Checks { outcome: true, latest: true, history: true, filters: true, transparent: true, alive: true, ..Default::default() };
        specs.push(s);
    }
    let mut s = specs[0].clone();
    s.name = "C04/seq/group2/background-io".into();
    s.io_mode = IoMode::Background;
    s.depth -= 1;
    specs.push(s);
    let results = run_specs(&specs, a, &no_known);
    seq_report("C04", a, "model_checking", results, SEQ_RULE)
}

fn c07(a: &Args) -> Report {
    let thorough = a.tier == "thorough";
    let alphabet = vec![
        Op::w(0, 1),
        Op::d(0, 2),
        Op::Rot,
        Op::TryClose,
        Op::TryRestore,
        Op::TryCreate,
        Op::Rst,
        Op::RstLazy,
        Op::DamageRst,
    ];
    let mut s = SeqSpec::new("C07/seq", alphabet, if thorough { 6 } else { 4 });
    s.checks = Checks { no_harm: true, ..Default::default() };
    let results = run_specs(&[s], a, &no_known);
    seq_report("C07", a, "model_checking", results, SEQ_RULE)
}

fn c10(a: &Args) -> Report {
    let thorough = a.tier == "thorough";
    let alphabet = vec![
        Op::w(0, 1),
        Op::w(1, 1),
        Op::w(2, 1),
        Op::w(3, 1),
        Op::Rot,
        Op::TryClose,
        Op::TryRestore,
        Op::d(0, 2),
        Op::Offload { level: 0 },
        Op::Offload { level: 1 },
        Op::Offload { level: 2 },
        Op::Rst,
    ];
    let mut specs = Vec::new();
    for (gs, bloom) in [(2usize, BloomCfg::Bits(64)), (3, BloomCfg::Bits(70)), (2, BloomCfg::None)] {
        let mut s = SeqSpec::new(&format!("C10/storage/group{gs}/{bloom:?}"), alphabet.clone(), if thorough { 5 } else { 4 });
        s.wcfg.group_size = gs;
        s.wcfg.bloom = bloom;
        s.keys = vec![0, 1, 2, 3, crate::world::ABSENT_KEY];
        s.checks = Checks { latest: true, filters: true, ..Default::default() };
        specs.push(s);
    }
    let results = run_specs(&specs, a, &no_known);
    seq_report("C10", a, "model_checking", results, SEQ_RULE)
}

fn c13(a: &Args) -> Report {
    let thorough = a.tier == "thorough";
    let alphabet = vec![
        Op::CloseBg,
        Op::CreateBg,
        Op::RestoreBg,
        Op::TryClose,
        Op::TryCreate,
        Op::TryRestore,
        Op::Rot,
        Op::ForceNever,
        Op::FreeExcess,
        Op::w(0, 1),
        Op::d(0, 2),
        Op::RstLazy,
    ];
    let mut s = SeqSpec::new("C13/seq", alphabet, if thorough { 4 } else { 3 });
    s.wcfg.max_data_in_blob = 2;
    s.epilogue = vec![Op::w(7, 1), Op::w(7, 2), Op::w(7, 3), Op::Tick];
    s.keys = vec![0, 7];
    s.checks = Checks { alive: true, rotation: true, ..Default::default() };
    let results = run_specs(&[s], a, &no_known);
    seq_report("C13", a, "model_checking", results, SEQ_RULE)
}

fn c15(a: &Args) -> Report {
    let thorough = a.tier == "thorough";
    let alphabet = vec![
        Op::w(0, 1),
        Op::w(1, 1),
        Op::d(0, 2),
        Op::TryClose,
        Op::TryRestore,
        Op::TryCreate,
        Op::Rot,
        Op::DamageRst,
        Op::Rst,
        Op::RstLazy,
    ];
    let mut specs = Vec::new();
    for gs in [2usize, 8] {
        let mut s = SeqSpec::new(&format!("C15/seq/group{gs}"), alphabet.clone(), if thorough { 6 } else { 4 });
        s.wcfg.group_size = gs;
        s.checks = Checks { accounting: true, ..Default::default() };
        specs.push(s);
    }
    let results = run_specs(&specs, a, &no_known);
    seq_report("C15", a, "model_checking", results, SEQ_RULE)
}

fn c03(a: &Args) -> Report {
    let thorough = a.tier == "thorough";
    let alphabet = vec![Op::w(0, 1), Op::w(1, 2), Op::w(0, 2), Op::d(0, 2), Op::Rot, Op::TryClose];
    let mut spec = SeqSpec::new("C03/restart", alphabet, if thorough { 5 } else { 4 });
    spec.metas = vec![0];
    let fine_depth = if thorough { 3 } else { 2 };
    let r = crate::engines::restart::run(&spec, fine_depth, a.threads);
    let mut violations = Vec::new();
    let mut machinery = Vec::new();
    for v in &r.violations {
        if v.findings.iter().any(|f| f.kind == "machinery") {
            machinery.push(format!("{v:?}"));
            continue;
        }
        let desc = format!("{} then close, {:?}, reopen lazy={} :: {}", v.history.join(" "), v.damage, v.lazy, v.findings[0].detail);
        violations.push((json!({"engine": "restart", "history": v.history, "lazy": v.lazy, "damage": v.damage, "findings": v.findings}), desc));
    }
    violations.truncate(10);
    Report {
        property: "C03".into(),
        tier: a.tier.clone(),
        seed: a.seed,
        level: "model_checking".into(),
        coverage: json!({
            "states": r.stats.states,
            "transitions": r.stats.restarts,
            "traces_validated_against_impl": r.stats.restarts,
            "evaluations": r.stats.restarts,
            "distinct_nontrivial": r.stats.distinct_damaged_dirs,
            "rule": "states = canonical model states reachable by the alphabet up to the depth; from each: close, one damage of the menu (per index file: removed, cleared written bit, truncated to 0 / header / half / len-1, older generation; all removed; all unwritten; from shallow states every truncation length with and without the written bit), reopen eager and lazy; distinct_nontrivial = distinct damaged directory contents",
            "samples": r.stats.samples,
            "exhaustive": true,
            "fine_sweep_states": r.stats.fine_states,
            "depth": spec.depth,
            "fine_depth": fine_depth,
        }),
        assumptions: vec!["damage is applied between sessions to index files only".into()],
        wall_s: 0.0,
        violations,
        known: vec![],
        machinery_errors: machinery,
    }
}
