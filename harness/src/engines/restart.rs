//! C03: restart equivalence. From every state the seq engine enumerates: close, damage the
//! index files in every way of a finite menu (coarse: per file and all files; fine: every
//! truncation length, with and without the written bit), reopen eagerly and lazily, and require
//! the same answer to every query as before the close.

use std::collections::{BTreeMap, BTreeSet, HashSet};
use std::hash::{Hash, Hasher};
use std::path::{Path, PathBuf};
use std::sync::atomic::{AtomicUsize, Ordering};
use std::sync::Mutex;

use pearl::ArrayKey;

use crate::ctl::{self, CtlConfig, EndState};
use crate::engines::seq::{self, SeqSpec};
use crate::oracle::{self, finding, Finding};
use crate::world::{self, HKey, Op, World};

pub const INDEX_HEADER_LEN: usize = 83;
pub const WRITTEN_BYTE: usize = 72;

#[derive(Debug, Clone, PartialEq, Eq, Hash, serde::Serialize)]
pub enum Damage {
    None,
    Remove(String),
    Truncate(String, usize),
    /// truncate and clear the written bit (a half-written file)
    TruncateUnwritten(String, usize),
    ClearWritten(String),
    /// replace by an older generation of the same file
    Stale(String, usize),
    RemoveAll,
    ClearWrittenAll,
}

#[derive(Debug, Default, Clone, serde::Serialize)]
pub struct RestartStats {
    pub states: usize,
    pub restarts: usize,
    pub distinct_damaged_dirs: usize,
    pub fine_states: usize,
    pub violations: usize,
    pub samples: Vec<String>,
}

#[derive(Debug, Clone, serde::Serialize)]
pub struct RestartViolation {
    pub history: Vec<String>,
    pub lazy: bool,
    pub damage: Damage,
    pub findings: Vec<Finding>,
}

fn copy_dir(from: &Path, to: &Path) {
    std::fs::create_dir_all(to).unwrap();
    for e in std::fs::read_dir(from).unwrap().flatten() {
        let p = e.path();
        let t = to.join(e.file_name());
        if p.is_dir() {
            copy_dir(&p, &t);
        } else if p.extension().map_or(true, |x| x != "lock") {
            std::fs::copy(&p, &t).unwrap();
        }
    }
}

fn index_files(dir: &Path) -> Vec<(String, usize)> {
    world::dir_listing(dir)
        .into_iter()
        .filter(|(n, _)| n.ends_with(".index"))
        .map(|(n, l)| (n, l as usize))
        .collect()
}

fn apply_damage(dir: &Path, d: &Damage, generations: &BTreeMap<String, Vec<Vec<u8>>>) {
    let clear = |p: &Path| {
        let mut b = std::fs::read(p).unwrap();
        if b.len() > WRITTEN_BYTE {
            b[WRITTEN_BYTE] &= !1;
            std::fs::write(p, b).unwrap();
        }
    };
    match d {
        Damage::None => {}
        Damage::Remove(f) => std::fs::remove_file(dir.join(f)).unwrap(),
        Damage::Truncate(f, n) => {
            let b = std::fs::read(dir.join(f)).unwrap();
            std::fs::write(dir.join(f), &b[..*n.min(&b.len())]).unwrap();
        }
        Damage::TruncateUnwritten(f, n) => {
            let b = std::fs::read(dir.join(f)).unwrap();
            std::fs::write(dir.join(f), &b[..*n.min(&b.len())]).unwrap();
            clear(&dir.join(f));
        }
        Damage::ClearWritten(f) => clear(&dir.join(f)),
        Damage::Stale(f, g) => std::fs::write(dir.join(f), &generations[f][*g]).unwrap(),
        Damage::RemoveAll => {
            for (f, _) in index_files(dir) {
                std::fs::remove_file(dir.join(f)).unwrap();
            }
        }
        Damage::ClearWrittenAll => {
            for (f, _) in index_files(dir) {
                clear(&dir.join(f));
            }
        }
    }
}

fn dir_digest(dir: &Path) -> u64 {
    let mut h = std::collections::hash_map::DefaultHasher::new();
    for (n, _) in world::dir_listing(dir) {
        n.hash(&mut h);
        std::fs::read(dir.join(&n)).unwrap_or_default().hash(&mut h);
    }
    h.finish()
}


async fn variant<K: HKey>(
    spec: SeqSpec,
    base: world::Obs,
    copy: PathBuf,
    d: Damage,
    lazy: bool,
    ever_max: Option<usize>,
) -> Vec<Finding> {
    let mut fs: Vec<Finding> = Vec::new();
        match World::<K>::open(copy.clone(), spec.wcfg.clone(), lazy).await {
            Err(e) => fs.push(finding("init_failed", format!("init after {d:?} failed: {e:#}"))),
            Ok(mut w2) => {
                ctl::quiesce().await;
                let obs = w2.observe(&spec.keys, &spec.metas).await;
                let (a, b) = (oracle::query_part(&base), oracle::query_part(&obs));
                for (k, va) in &a {
                    if b.get(k) != Some(va) {
                        fs.push(finding(
                            "answers_differ",
                            format!("k{k}: before close {:?}, after reopen {:?}", va, b.get(k)),
                        ));
                    }
                }
                if obs.records_count != base.records_count || obs.blobs_count != base.blobs_count {
                    fs.push(finding(
                        "counts_differ",
                        format!(
                            "records/blobs before close {}/{}, after reopen {}/{}",
                            base.records_count, base.blobs_count, obs.records_count, obs.blobs_count
                        ),
                    ));
                }
                if let Some(m) = ever_max {
                    if obs.next_blob_id <= m {
                        fs.push(finding(
                            "next_blob_id",
                            format!("next_blob_id {} does not exceed the highest id ever used {}", obs.next_blob_id, m),
                        ));
                    }
                }
                // ... and stay the same when the reopened storage sheds what it holds in memory:
                // what was read from the index files (filters, offsets) is then really used
                for op in [Op::Offload { level: 0 }, Op::FreeExcess] {
                    let _ = w2.apply(op).await;
                    ctl::quiesce().await;
                    let obs2 = w2.observe(&spec.keys, &spec.metas).await;
                    let b2 = oracle::query_part(&obs2);
                    for (k, va) in &a {
                        if b2.get(k) != Some(va) {
                            fs.push(finding(
                                "answers_differ",
                                format!("k{k}: before close {:?}, after reopen and {} {:?}", va, op.short(), b2.get(k)),
                            ));
                        }
                    }
                }
                // the storage is usable: a probe write survives a rotation
                w2.label_prefix = "probe".into();
                let p1 = w2.apply(Op::w(9, 9)).await;
                let _ = w2.apply(Op::Rot).await;
                ctl::quiesce().await;
                let ko = w2.observe_key(9, &[]).await;
                if !matches!(p1, world::Outcome::Res(crate::model::Res::Ok, _))
                    || !matches!(ko.read, crate::model::RR::Found { .. })
                {
                    fs.push(finding("probe", format!("probe write {:?}, read {:?}", p1, ko.read)));
                }
                if let Err(e) = w2.close().await {
                    fs.push(finding("close", format!("{e:#}")));
                }
            }
        }
    fs
}

struct SweepOut {
    restarts: usize,
    distinct: usize,
    violations: Vec<(Damage, Vec<Finding>)>,
    sample: Option<String>,
}

async fn sweep_task<K: HKey>(
    spec: SeqSpec,
    history: Vec<Op>,
    lazy: bool,
    fine: bool,
    ever_max: Option<usize>,
) -> SweepOut {
    let mut out = SweepOut {
        restarts: 0,
        distinct: 0,
        violations: vec![],
        sample: None,
    };
    let dir = world::fresh_dir();
    let mut w: World<K> = match World::open(dir.clone(), spec.wcfg.clone(), false).await {
        Ok(w) => w,
        Err(e) => {
            out.violations.push((Damage::None, vec![finding("init", format!("{e:#}"))]));
            return out;
        }
    };
    ctl::quiesce().await;
    // index generations seen while the history runs (for stale replacement)
    let mut generations: BTreeMap<String, Vec<Vec<u8>>> = BTreeMap::new();
    let mut stash = |dir: &Path, gens: &mut BTreeMap<String, Vec<Vec<u8>>>| {
        for (f, _) in index_files(dir) {
            let b = std::fs::read(dir.join(&f)).unwrap_or_default();
            let v = gens.entry(f).or_default();
            if v.last() != Some(&b) {
                v.push(b);
            }
        }
    };
    for op in &history {
        let _ = w.apply(*op).await;
        if w.storage.is_none() {
            out.violations
                .push((Damage::None, vec![finding("restart", format!("{} failed", op.short()))]));
            return out;
        }
        ctl::quiesce().await;
        stash(&dir, &mut generations);
    }
    let base = w.observe(&spec.keys, &spec.metas).await;
    if let Err(e) = w.close().await {
        out.violations.push((Damage::None, vec![finding("close", format!("{e:#}"))]));
        return out;
    }
    stash(&dir, &mut generations);
    // the menu
    let mut menu: Vec<Damage> = vec![Damage::None, Damage::RemoveAll, Damage::ClearWrittenAll];
    for (f, len) in index_files(&dir) {
        menu.push(Damage::Remove(f.clone()));
        menu.push(Damage::ClearWritten(f.clone()));
        for n in [0, INDEX_HEADER_LEN.min(len), len / 2, len.saturating_sub(1)] {
            menu.push(Damage::Truncate(f.clone(), n));
        }
        let gens = generations.get(&f).map_or(0, |g| g.len());
        for g in 0..gens.saturating_sub(1) {
            menu.push(Damage::Stale(f.clone(), g));
        }
        if fine {
            for n in 0..len {
                menu.push(Damage::Truncate(f.clone(), n));
                if n > WRITTEN_BYTE {
                    menu.push(Damage::TruncateUnwritten(f.clone(), n));
                }
            }
        }
    }
    let mut seen: HashSet<u64> = HashSet::new();
    for d in menu {
        let copy = world::fresh_dir();
        copy_dir(&dir, &copy);
        apply_damage(&copy, &d, &generations);
        if !seen.insert(dir_digest(&copy)) {
            world::remove_dir(&copy);
            continue;
        }
        out.distinct += 1;
        out.restarts += 1;
        if out.sample.is_none() && !matches!(d, Damage::None) {
            out.sample = Some(format!("{:?} lazy={lazy}", d));
        }
        let (spec2, base2, copy2, d2) = (spec.clone(), base.clone(), copy.clone(), d.clone());
        let handle = pearl::verif::spawn("variant", async move {
            variant::<K>(spec2, base2, copy2, d2, lazy, ever_max).await
        });
        let fs: Vec<Finding> = match handle.await {
            Ok(fs) => fs,
            Err(e) => vec![finding(
                "panic",
                format!("reopen after {d:?} panicked: {e}; {:?}", ctl::take_panic_msgs()),
            )],
        };
        if !fs.is_empty() {
            out.violations.push((d, fs));
        }
        world::remove_dir(&copy);
    }
    world::remove_dir(&dir);
    out
}

fn run_sweep<K: HKey>(
    spec: &SeqSpec,
    history: &[Op],
    lazy: bool,
    fine: bool,
    ever_max: Option<usize>,
) -> (SweepOut, EndState, Vec<String>) {
    let mut cfg = CtlConfig::sequential(spec.io_mode);
    cfg.auto_clock = None;
    let (s, h) = (spec.clone(), history.to_vec());
    let exec = ctl::execute(cfg, &[], None, move || sweep_task::<K>(s, h, lazy, fine, ever_max));
    let panics = exec.ctl.panics.borrow().clone();
    let out = match exec.result {
        Ok(o) => o,
        Err(e) => SweepOut {
            restarts: 0,
            distinct: 0,
            violations: vec![(Damage::None, vec![finding("panic", format!("{e}; {panics:?}"))])],
            sample: None,
        },
    };
    (out, exec.trace.end, panics)
}

pub struct RestartResult {
    pub stats: RestartStats,
    pub violations: Vec<RestartViolation>,
}

/// States = every history of `spec.alphabet` up to `spec.depth` that reaches a new model state;
/// the fine sweep runs from states of depth <= `fine_depth`.
pub fn run(spec: &SeqSpec, fine_depth: usize, threads: usize) -> RestartResult {
    // enumerate states with the model only (the transitions themselves are validated by the
    // seq engine under the C01/C02 checks)
    // (histories start with `spec.prefix`, which is not counted in the depth)
    let mut states: Vec<Vec<Op>> = vec![spec.prefix.clone()];
    let mut seen: BTreeSet<u64> = BTreeSet::new();
    let h0 = {
        let (_, m, _) = seq::model_history(spec, &spec.prefix);
        hash(&m)
    };
    seen.insert(h0);
    let mut frontier = vec![spec.prefix.clone()];
    for _ in 0..spec.depth {
        let mut next = Vec::new();
        for h in &frontier {
            for op in &spec.alphabet {
                let mut hh: Vec<Op> = h.clone();
                hh.push(*op);
                let (_, m, _) = seq::model_history(spec, &hh);
                if seen.insert(hash(&m)) {
                    states.push(hh.clone());
                    next.push(hh);
                }
            }
        }
        frontier = next;
    }
    let items: Vec<(usize, bool)> = (0..states.len()).flat_map(|i| [(i, false), (i, true)]).collect();
    let next = AtomicUsize::new(0);
    let results: Mutex<Vec<(usize, bool, SweepOut, EndState, Vec<String>)>> = Mutex::new(Vec::new());
    std::thread::scope(|sc| {
        for _ in 0..threads.max(1) {
            sc.spawn(|| loop {
                let i = next.fetch_add(1, Ordering::Relaxed);
                if i >= items.len() {
                    break;
                }
                let (si, lazy) = items[i];
                let h = &states[si];
                let (_, m, _) = seq::model_history(spec, h);
                let ever_max = m.ever_ids.iter().next_back().copied();
                let fine = h.len() <= spec.prefix.len() + fine_depth && fine_depth > 0 || (spec.prefix.is_empty() && h.len() <= fine_depth);
                let r = match spec.key_len {
                    4 => run_sweep::<ArrayKey<4>>(spec, h, lazy, fine, ever_max),
                    8 => run_sweep::<ArrayKey<8>>(spec, h, lazy, fine, ever_max),
                    33 => run_sweep::<ArrayKey<33>>(spec, h, lazy, fine, ever_max),
                    n => panic!("key length {n}"),
                };
                results.lock().unwrap().push((si, lazy, r.0, r.1, r.2));
            });
        }
    });
    let mut results = results.into_inner().unwrap();
    results.sort_by_key(|r| (r.0, r.1));
    let mut stats = RestartStats {
        states: states.len(),
        fine_states: states.iter().filter(|h| h.len() <= spec.prefix.len() + fine_depth).count(),
        ..Default::default()
    };
    let mut violations = Vec::new();
    for (si, lazy, out, end, panics) in results {
        stats.restarts += out.restarts;
        stats.distinct_damaged_dirs += out.distinct;
        if let (Some(s), true) = (&out.sample, stats.samples.len() < 4) {
            stats.samples.push(format!("{} :: {}", states[si].iter().map(|o| o.short()).collect::<Vec<_>>().join(" "), s));
        }
        let mut vs = out.violations;
        if end != EndState::Finished {
            vs.push((Damage::None, vec![finding("deadlock", format!("{end:?}"))]));
        }
        if !panics.is_empty() {
            vs.push((Damage::None, vec![finding("panic", format!("{panics:?}"))]));
        }
        for (d, fs) in vs {
            stats.violations += 1;
            if violations.len() < 40 {
                violations.push(RestartViolation {
                    history: states[si].iter().map(|o| o.short()).collect(),
                    lazy,
                    damage: d,
                    findings: fs,
                });
            }
        }
    }
    RestartResult { stats, violations }
}

fn hash<T: Hash>(t: &T) -> u64 {
    let mut h = std::collections::hash_map::DefaultHasher::new();
    t.hash(&mut h);
    h.finish()
}

#[allow(dead_code)]
fn _unused(_: PathBuf) {}
