//! crash engine (C06): records the ordered I/O log of a history, then for every prefix of the
//! log materialises crash states -- process kill (all issued bytes present; a large in-flight
//! write cut at page boundaries) and power loss (un-synced bytes of each file lost from any
//! byte on, absent or zero-filled; un-synced writes dropped as subsets; the index-header rewrite
//! applied or not) -- and recovers each with the real `init` under four configurations.

use std::collections::{BTreeMap, BTreeSet, HashSet};
use std::hash::{Hash, Hasher};
use std::path::{Path, PathBuf};
use std::sync::atomic::{AtomicUsize, Ordering};
use std::sync::Mutex;

use pearl::verif::IoOp;
use pearl::ArrayKey;

use crate::ctl::{self, is_blob, is_index, CtlConfig, EndState, IoMode};
use crate::model::{KeyId, RefStore, Res, RR};
use crate::oracle::{self, finding, Finding};
use crate::tap::{blob_id, short_path, Entry};
use crate::world::{self, KeyObs, Op, Outcome, WCfg, World};

type K4 = ArrayKey<4>;

#[derive(Debug, Clone, serde::Serialize)]
pub struct CrashSpec {
    pub name: String,
    pub wcfg: WCfg,
    #[serde(skip)]
    pub io_mode: IoMode,
    pub io: String,
    pub history: Vec<Op>,
    pub keys: Vec<KeyId>,
    /// every byte of un-synced regions up to this size; larger regions: both ends and page boundaries
    pub fine_limit: usize,
    /// second level (a kill during the recovery itself): number of first-level states per history
    /// whose recovery is recorded and cut after every file operation (kill states first)
    pub second_level_parents: usize,
}

impl CrashSpec {
    pub fn new(name: &str, io_mode: IoMode, history: Vec<Op>) -> Self {
        Self {
            name: name.to_string(),
            wcfg: WCfg::default(),
            io_mode,
            io: format!("{io_mode:?}"),
            history,
            keys: vec![0, 1, 2],
            fine_limit: 8192,
            second_level_parents: 0,
        }
    }
}

// ---------------------------------------------------------------------------------------------
// Recording
// ---------------------------------------------------------------------------------------------

#[derive(Debug, Clone)]
enum Ev {
    Create(PathBuf),
    Write { path: PathBuf, offset: u64, data: Vec<u8> },
    Sync(PathBuf),
    Truncate(PathBuf),
    Rename(PathBuf, PathBuf),
    Remove(PathBuf),
    /// API call `i` of the history begins / ends (ok?)
    Begin(usize),
    End(usize, bool),
}

struct Recorded {
    events: Vec<Ev>,
    dir: PathBuf,
    outcomes: Vec<Outcome>,
}

async fn record_task(spec: CrashSpec) -> (PathBuf, Vec<Outcome>) {
    let dir = world::fresh_dir();
    let mut outcomes = Vec::new();
    let mut w: World<K4> = World::open(dir.clone(), spec.wcfg.clone(), false).await.expect("init");
    ctl::quiesce().await;
    for (i, op) in spec.history.iter().enumerate() {
        ctl::with_ctl(|c| c.log.borrow_mut().mark(format!("begin {i}")));
        let out = w.apply(*op).await;
        let ok = !matches!(out, Outcome::Res(Res::Err, _) | Outcome::Count(Err(_)));
        ctl::with_ctl(|c| c.log.borrow_mut().mark(format!("end {i} {}", if ok { "ok" } else { "err" })));
        outcomes.push(out);
        ctl::quiesce().await;
    }
    // everything after this mark (the orderly close) is not part of the crashed history
    ctl::with_ctl(|c| c.log.borrow_mut().mark("history-done"));
    let _ = w.close().await;
    (dir, outcomes)
}

fn record(spec: &CrashSpec) -> Result<Recorded, String> {
    let mut cfg = CtlConfig::sequential(spec.io_mode);
    cfg.auto_clock = None;
    let s = spec.clone();
    let exec = ctl::execute(cfg, &[], None, move || record_task(s));
    let (dir, outcomes) = exec.result.map_err(|e| format!("recording run failed: {e}"))?;
    let mut events = Vec::new();
    for e in &exec.ctl.log.borrow().entries {
        match e {
            Entry::Io { ev, faulted: false, .. } => match &ev.op {
                IoOp::Open { existed: false, .. } => events.push(Ev::Create(ev.path.clone())),
                IoOp::Write { offset, data, .. } => events.push(Ev::Write {
                    path: ev.path.clone(),
                    offset: *offset,
                    data: data.clone(),
                }),
                IoOp::Sync { .. } => events.push(Ev::Sync(ev.path.clone())),
                IoOp::Truncate => events.push(Ev::Truncate(ev.path.clone())),
                IoOp::Rename { to } => events.push(Ev::Rename(ev.path.clone(), to.clone())),
                IoOp::Remove => events.push(Ev::Remove(ev.path.clone())),
                _ => {}
            },
            Entry::Mark(m) if m == "history-done" => break,
            Entry::Mark(m) => {
                let mut it = m.split_whitespace();
                match (it.next(), it.next().and_then(|x| x.parse::<usize>().ok()), it.next()) {
                    (Some("begin"), Some(i), _) => events.push(Ev::Begin(i)),
                    (Some("end"), Some(i), Some(ok)) => events.push(Ev::End(i, ok == "ok")),
                    _ => {}
                }
            }
            _ => {}
        }
    }
    world::remove_dir(&dir);
    Ok(Recorded { events, dir, outcomes })
}

/// The file operations of one recovery (`init` + background work until quiescence) from `state`.
async fn record_recovery_task(cfg: WCfg, state: State) -> PathBuf {
    let dir = world::fresh_dir();
    materialise(&state, &dir);
    ctl::with_ctl(|c| c.log.borrow_mut().mark("recovery-begin"));
    if let Ok(mut w) = World::<K4>::open(dir.clone(), cfg, false).await {
        ctl::quiesce().await;
        ctl::with_ctl(|c| c.log.borrow_mut().mark("recovery-done"));
        let _ = w.close().await;
    } else {
        ctl::with_ctl(|c| c.log.borrow_mut().mark("recovery-done"));
    }
    dir
}

fn record_recovery(cfg: &WCfg, state: &State, io_mode: IoMode) -> Result<(Vec<Ev>, PathBuf), String> {
    let mut ccfg = CtlConfig::sequential(io_mode);
    ccfg.auto_clock = None;
    let (c, s) = (cfg.clone(), state.clone());
    let exec = ctl::execute(ccfg, &[], None, move || record_recovery_task(c, s));
    let dir = exec.result.map_err(|e| format!("recording of a recovery failed: {e}"))?;
    let mut events = Vec::new();
    let mut on = false;
    for e in &exec.ctl.log.borrow().entries {
        match e {
            Entry::Mark(m) if m == "recovery-begin" => on = true,
            Entry::Mark(m) if m == "recovery-done" => break,
            Entry::Io { ev, faulted: false, .. } if on => match &ev.op {
                IoOp::Open { existed: false, .. } => events.push(Ev::Create(ev.path.clone())),
                IoOp::Write { offset, data, .. } => events.push(Ev::Write { path: ev.path.clone(), offset: *offset, data: data.clone() }),
                IoOp::Sync { .. } => events.push(Ev::Sync(ev.path.clone())),
                IoOp::Truncate => events.push(Ev::Truncate(ev.path.clone())),
                IoOp::Rename { to } => events.push(Ev::Rename(ev.path.clone(), to.clone())),
                IoOp::Remove => events.push(Ev::Remove(ev.path.clone())),
                _ => {}
            },
            _ => {}
        }
    }
    world::remove_dir(&dir);
    Ok((events, dir))
}

fn simfs_of(state: &State) -> SimFs {
    let mut fs = SimFs::default();
    for (n, c) in state {
        fs.files.insert(n.clone(), SimFile { data: c.clone(), synced: c.len(), pending: vec![], durable: c.clone() });
    }
    fs
}

// ---------------------------------------------------------------------------------------------
// Simulated file system
// ---------------------------------------------------------------------------------------------

#[derive(Debug, Clone, Default, PartialEq, Eq, Hash)]
struct SimFile {
    data: Vec<u8>,
    /// bytes [0, synced) are durable
    synced: usize,
    /// writes since the last sync: (offset, len)
    pending: Vec<(usize, usize)>,
    /// content at the last sync (for non-append rewrites such as the index header)
    durable: Vec<u8>,
}

#[derive(Debug, Clone, Default)]
struct SimFs {
    files: BTreeMap<String, SimFile>,
}

fn rel(path: &Path, root: &Path) -> String {
    path.strip_prefix(root).map(|p| p.to_string_lossy().to_string()).unwrap_or_else(|_| short_path(path))
}

impl SimFs {
    fn apply(&mut self, ev: &Ev, root: &Path) {
        match ev {
            Ev::Create(p) => {
                self.files.entry(rel(p, root)).or_default();
            }
            Ev::Write { path, offset, data } => {
                let f = self.files.entry(rel(path, root)).or_default();
                let end = *offset as usize + data.len();
                if f.data.len() < end {
                    f.data.resize(end, 0);
                }
                f.data[*offset as usize..end].copy_from_slice(data);
                f.pending.push((*offset as usize, data.len()));
            }
            Ev::Sync(p) => {
                if let Some(f) = self.files.get_mut(&rel(p, root)) {
                    f.synced = f.data.len();
                    f.pending.clear();
                    f.durable = f.data.clone();
                }
            }
            Ev::Truncate(p) => {
                if let Some(f) = self.files.get_mut(&rel(p, root)) {
                    *f = SimFile::default();
                }
            }
            Ev::Rename(a, b) => {
                if let Some(f) = self.files.remove(&rel(a, root)) {
                    self.files.insert(rel(b, root), f);
                }
            }
            Ev::Remove(p) => {
                self.files.remove(&rel(p, root));
            }
            Ev::Begin(_) | Ev::End(..) => {}
        }
    }
}

/// One crash state: file name -> content.
type State = BTreeMap<String, Vec<u8>>;

/// A crash state as a recipe over a shared snapshot of the simulated file system (states are
/// materialised only while they are hashed and while they are recovered).
#[derive(Clone)]
enum StateSpec {
    /// a state given by content (second level)
    Direct(std::sync::Arc<State>),
    Full(std::sync::Arc<SimFs>),
    /// the in-flight write `data[..upto]` applied on top of the snapshot
    Partial { fs: std::sync::Arc<SimFs>, ev: std::sync::Arc<Ev>, upto: usize, root: PathBuf },
    Cut { fs: std::sync::Arc<SimFs>, file: String, cut: usize, zero_fill: bool, rewrite_applied: bool, others_durable: bool },
    Holes { fs: std::sync::Arc<SimFs>, file: String, mask: u32, others_durable: bool },
}

fn appends_of(f: &SimFile) -> Vec<(usize, usize)> {
    f.pending.iter().cloned().filter(|(o, _)| *o >= f.synced).collect()
}

fn rewrites_of(f: &SimFile) -> Vec<(usize, usize)> {
    f.pending.iter().cloned().filter(|(o, _)| *o < f.synced).collect()
}

fn materialise_spec(spec: &StateSpec) -> State {
    match spec {
        StateSpec::Direct(s) => (**s).clone(),
        StateSpec::Full(fs) => full_state(fs),
        StateSpec::Partial { fs, ev, upto, root } => {
            let mut f2 = (**fs).clone();
            if let Ev::Write { path, offset, data } = &**ev {
                f2.apply(&Ev::Write { path: path.clone(), offset: *offset, data: data[..*upto].to_vec() }, root);
            }
            full_state(&f2)
        }
        StateSpec::Cut { fs, file, cut, zero_fill, rewrite_applied, others_durable } => {
            let f = &fs.files[file];
            let mut content = f.data.clone();
            if !rewrite_applied {
                for (o, l) in rewrites_of(f) {
                    let e = (o + l).min(f.durable.len());
                    if o < e {
                        content[o..e].copy_from_slice(&f.durable[o..e]);
                    }
                }
            }
            if *zero_fill {
                for b in content[*cut..].iter_mut() {
                    *b = 0;
                }
            } else {
                content.truncate(*cut);
            }
            let mut s = if *others_durable { durable_state(fs) } else { full_state(fs) };
            s.insert(file.clone(), content);
            s
        }
        StateSpec::Holes { fs, file, mask, others_durable } => {
            let f = &fs.files[file];
            let mut content = f.data.clone();
            for (i, (o, l)) in appends_of(f).iter().enumerate() {
                if mask & (1 << i) == 0 {
                    for b in content[*o..o + l].iter_mut() {
                        *b = 0;
                    }
                }
            }
            let mut s = if *others_durable { durable_state(fs) } else { full_state(fs) };
            s.insert(file.clone(), content);
            s
        }
    }
}

fn full_state(fs: &SimFs) -> State {
    fs.files.iter().map(|(n, f)| (n.clone(), f.data.clone())).collect()
}

fn durable_state(fs: &SimFs) -> State {
    fs.files.iter().map(|(n, f)| (n.clone(), f.durable.clone())).collect()
}

fn interesting_cuts(lo: usize, hi: usize, segs: &[(usize, usize)], fine_limit: usize) -> Vec<usize> {
    // every byte if the region is small; else both ends of every pending segment and page boundaries
    let mut v: BTreeSet<usize> = BTreeSet::new();
    if hi - lo <= fine_limit {
        v.extend(lo..=hi);
    } else {
        v.insert(lo);
        v.insert(hi);
        for (o, l) in segs {
            for d in 0..600usize.min(*l) {
                v.insert(o + d);
                v.insert(o + l - d);
            }
            let mut p = (o / 4096 + 1) * 4096;
            while p < o + l {
                v.extend([p - 1, p, p + 1]);
                p += 4096;
            }
        }
    }
    v.into_iter().filter(|x| *x >= lo && *x <= hi).collect()
}

/// Power-loss states of `fs`: the un-synced part of each file lost in every enumerated way.
fn power_loss_states(fs: &std::sync::Arc<SimFs>, fine_limit: usize) -> Vec<(String, StateSpec)> {
    let mut out: Vec<(String, StateSpec)> = Vec::new();
    let names: Vec<String> = fs.files.keys().cloned().collect();
    for n in &names {
        let f = &fs.files[n];
        if f.pending.is_empty() {
            continue;
        }
        let appends = appends_of(f);
        let rewrites = rewrites_of(f);
        for others_durable in [false, true] {
            let bname = if others_durable { "others-durable" } else { "others-present" };
            // (i) truncation at every enumerated byte, tail absent or zero-filled
            for cut in interesting_cuts(f.synced, f.data.len(), &appends, fine_limit) {
                for zero_fill in [false, true] {
                    if cut == f.data.len() && zero_fill {
                        continue;
                    }
                    for rewrite_applied in if rewrites.is_empty() { vec![true] } else { vec![false, true] } {
                        out.push((
                            format!("{n}: cut at {cut}{}{} / {bname}", if zero_fill { " zero-filled" } else { "" }, if rewrite_applied { "" } else { " header rewrite lost" }),
                            StateSpec::Cut { fs: fs.clone(), file: n.clone(), cut, zero_fill, rewrite_applied, others_durable },
                        ));
                    }
                }
            }
            // (ii) un-synced writes dropped as subsets (holes), file at full length
            if appends.len() >= 2 && appends.len() <= 8 {
                for mask in 1u32..(1 << appends.len()) - 1 {
                    out.push((format!("{n}: un-synced writes kept mask {mask:b} / {bname}"), StateSpec::Holes { fs: fs.clone(), file: n.clone(), mask, others_durable }));
                }
            }
        }
    }
    out
}

fn state_digest(s: &State) -> u64 {
    let mut h = std::collections::hash_map::DefaultHasher::new();
    s.hash(&mut h);
    h.finish()
}

fn materialise(s: &State, dir: &Path) {
    std::fs::create_dir_all(dir).unwrap();
    for (n, c) in s {
        let p = dir.join(n);
        if let Some(parent) = p.parent() {
            std::fs::create_dir_all(parent).unwrap();
        }
        std::fs::write(p, c).unwrap();
    }
}

// ---------------------------------------------------------------------------------------------
// Oracle
// ---------------------------------------------------------------------------------------------

#[derive(Debug, Clone)]
struct CrashPoint {
    /// model of all acknowledged operations plus the in-flight one (applied last)
    model: RefStore,
    /// per blob id: number of records that were acknowledged (the rest belong to the in-flight op)
    acked_per_blob: BTreeMap<usize, usize>,
    /// blobs whose index dump (incl. its sync) completed and which were not appended to since
    sealed: BTreeSet<usize>,
    kill: bool,
}

fn value_tag_of(i: usize, op: &Op) -> String {
    match op {
        Op::Write { k, ts, size, .. } => world::value_tag(&world::value_bytes(&format!("w{}k{}t{}", i, k, ts), *size as usize)),
        _ => String::new(),
    }
}

#[derive(Debug, Clone)]
struct RecoveryObs {
    init_err: Option<String>,
    keys: BTreeMap<KeyId, KeyObs>,
    corrupted_count: usize,
    /// ids of blob files found in the corrupted dir after init, with "identical to crash state" flag
    quarantined: BTreeMap<usize, bool>,
    /// per quarantined blob: value tags recovered by tools::recovery_blob
    recovered: BTreeMap<usize, BTreeSet<String>>,
    probe_ok: Result<(), String>,
    panicked: Option<String>,
    /// C07: snapshot comparisons crash state -> after init -> after probe -> after each restart,
    /// and the append-only predicates over this recovery's slice of the I/O log
    no_harm: Vec<String>,
}

/// Which clauses a recovery is judged by (the recoveries are the same).
#[derive(Debug, Clone, Copy, PartialEq, Eq)]
pub enum CrashOracle {
    /// C06: what is served after recovery is explained by the acknowledged prefix; usable
    Recovery,
    /// C07: recovery never modifies, truncates or deletes blob bytes, never reuses an id
    NoHarm,
}

fn blob_part(state: &State) -> BTreeMap<String, Vec<u8>> {
    state.iter().filter(|(n, _)| n.ends_with(".blob")).map(|(n, c)| (n.clone(), c.clone())).collect()
}

/// Compares with the previous snapshot and moves on.
fn no_harm_step(what: &str, snap: &mut BTreeMap<String, Vec<u8>>, dir: &Path, out: &mut Vec<String>) {
    let now = crate::tap::snapshot_blobs(dir);
    for v in crate::tap::snapshot_violations(snap, &now) {
        out.push(format!("{what}: {v}"));
    }
    // a file that is new in the work directory carries an id above every id seen so far
    let max_before = snap.keys().filter_map(|n| crate::tap::blob_id(Path::new(n))).max();
    for n in now.keys().filter(|n| !n.starts_with("corrupted/") && !snap.contains_key(*n)) {
        if let (Some(id), Some(mx)) = (crate::tap::blob_id(Path::new(n)), max_before) {
            if id <= mx {
                out.push(format!("{what}: new blob file {n} although id {mx} had been used"));
            }
        }
    }
    *snap = now;
}

fn judge_state(spec: &CrashSpec, cp: &CrashPoint, cfg: &WCfg, obs: &RecoveryObs, state: &State) -> Vec<Finding> {
    let mut fs = Vec::new();
    if let Some(p) = &obs.panicked {
        fs.push(finding("panic", format!("recovery panicked: {p}")));
        return fs;
    }
    if let Some(e) = &obs.init_err {
        // open known finding "torn-header-version-zero": a new blob's header torn so that the magic
        // survives and the version reads 0 is taken for an old-format blob and init refuses to start
        let torn_version = state.iter().any(|(n, b)| {
            n.ends_with(".blob") && b.len() >= 12 && b[..8] == crate::blobfile::BLOB_MAGIC.to_le_bytes() && b[8..12] == [0, 0, 0, 0]
        });
        let kind = if e.contains("BlobVersion") && torn_version && !cfg.ignore_corrupted && !cp.kill {
            "torn_header_version_zero"
        } else {
            "init_failed"
        };
        fs.push(finding(kind, format!("init failed: {e}")));
        return fs;
    }
    // keys whose record data is genuinely damaged in this crash state: with data validation off
    // such a record may be indexed, and reading it must fail (never return wrong bytes)
    let mut damaged_keys: BTreeSet<KeyId> = BTreeSet::new();
    if !cfg.validate_data && !cp.kill {
        for (n, b) in state.iter().filter(|(n, _)| n.ends_with(".blob")) {
            let _ = n;
            for r in crate::blobfile::parse(b, 4).records {
                if !r.data_crc_ok {
                    damaged_keys.insert(world::key_id(&r.key));
                }
            }
        }
    }
    let is_checksum_err = |ko: &KeyObs| {
        let e1 = matches!(&ko.read, RR::Err(m) if m.contains("RecordDataChecksum"));
        let e2 = matches!(&ko.all_wdm, Err(m) if m.contains("RecordDataChecksum"));
        e1 || e2
    };
    for (id, identical) in &obs.quarantined {
        if !identical {
            fs.push(finding("quarantine_modified", format!("quarantined blob {id} differs from the file found at start-up")));
        }
    }
    // candidate served sets
    let blobs: Vec<usize> = cp.model.blobs().map(|b| b.id).collect();
    let lens: Vec<usize> = cp.model.blobs().map(|b| b.records.len()).collect();
    // candidate i: idx[i] == 0 -> not served, idx[i] == j + 1 -> serves its first j records
    let mut idx: Vec<usize> = vec![0; blobs.len()];
    let mut choice: Vec<Option<usize>> = vec![None; blobs.len()];
    let mut explanations = 0usize;
    let mut why_not: Vec<String> = Vec::new();
    fn next(idx: &mut Vec<usize>, lens: &[usize]) -> bool {
        for i in 0..idx.len() {
            if idx[i] < lens[i] + 1 {
                idx[i] += 1;
                return true;
            }
            idx[i] = 0;
        }
        false
    }
    loop {
        for i in 0..idx.len() {
            choice[i] = if idx[i] == 0 { None } else { Some(idx[i] - 1) };
        }
        // admissibility of this candidate
        let mut admissible = true;
        for (bi, id) in blobs.iter().enumerate() {
            let acked = cp.acked_per_blob.get(id).copied().unwrap_or(0);
            let file_exists = state.contains_key(&format!("t.{id}.blob")) || state.contains_key(&format!("corrupted/t.{id}.blob"));
            match choice[bi] {
                None => {
                    if cp.sealed.contains(id) {
                        admissible = false; // closed + indexed before the crash: must be served in full
                    }
                    let quarantined = obs.quarantined.contains_key(id);
                    if file_exists && !quarantined && !cfg.ignore_corrupted && acked > 0 {
                        admissible = false; // neither served nor quarantined: acknowledged data vanished
                    }
                    if cp.kill && acked > 0 && !cfg.ignore_corrupted {
                        // everything acknowledged must come back from the recovery tool
                        let rec = obs.recovered.get(id).cloned().unwrap_or_default();
                        let b = cp.model.blobs().find(|b| b.id == *id).unwrap();
                        for r in b.records[..acked].iter().filter(|r| !r.del) {
                            if !rec.contains(&r.val) {
                                admissible = false;
                            }
                        }
                    }
                }
                Some(j) => {
                    if cp.sealed.contains(id) && j < acked {
                        admissible = false;
                    }
                    if cp.kill && j < acked {
                        admissible = false;
                    }
                    if obs.quarantined.contains_key(id) && j > 0 {
                        admissible = false; // a quarantined blob serves nothing
                    }
                }
            }
        }
        if admissible {
            // answers of the model restricted to the candidate
            let mut m = cp.model.clone();
            let trunc = |b: &mut crate::model::BlobM| {
                let bi = blobs.iter().position(|x| *x == b.id).unwrap();
                match choice[bi] {
                    None => b.records.clear(),
                    Some(j) => b.records.truncate(j),
                }
            };
            for s in m.closed.iter_mut().flatten() {
                trunc(s);
            }
            if let Some(a) = m.active.as_mut() {
                trunc(a);
            }
            let mut ok = true;
            for (k, ko) in &obs.keys {
                if damaged_keys.contains(k) && is_checksum_err(ko) {
                    continue;
                }
                let want = oracle::model_key_obs(&m, *k, &[0]);
                if ko.read != want.read || ko.all_wdm != want.all_wdm {
                    ok = false;
                    if why_not.len() < 2 {
                        why_not.push(format!("candidate {:?}: k{k} read {:?} / list {:?}, candidate says {:?} / {:?}", choice, ko.read, ko.all_wdm, want.read, want.all_wdm));
                    }
                    break;
                }
            }
            if ok {
                explanations += 1;
                break;
            }
        }
        if !next(&mut idx, &lens) {
            break;
        }
    }
    if explanations == 0 {
        fs.push(finding(
            "not_a_prefix",
            format!(
                "the recovered storage is not explained by any admissible served set (kill={}, sealed {:?}, acknowledged per blob {:?}, quarantined {:?}, recovered by the tool {:?}); answers: {:?}; e.g. {:?}",
                cp.kill,
                cp.sealed,
                cp.acked_per_blob,
                obs.quarantined,
                obs.recovered,
                obs.keys.iter().map(|(k, o)| (k, &o.read, &o.all_wdm)).collect::<Vec<_>>(),
                why_not
            ),
        ));
    }
    if let Err(e) = &obs.probe_ok {
        fs.push(finding("probe", format!("writes after recovery: {e}")));
    }
    let _ = spec;
    fs
}

async fn recover_one(cfg: WCfg, state: State, keys: Vec<KeyId>) -> RecoveryObs {
    let dir = world::fresh_dir();
    materialise(&state, &dir);
    let mut obs = RecoveryObs {
        init_err: None,
        keys: BTreeMap::new(),
        corrupted_count: 0,
        quarantined: BTreeMap::new(),
        recovered: BTreeMap::new(),
        probe_ok: Ok(()),
        panicked: None,
        no_harm: Vec::new(),
    };
    let mut snap = blob_part(&state);
    let log_from = ctl::with_ctl(|c| c.log.borrow().len());
    let mut ever: BTreeSet<usize> = snap.keys().filter_map(|n| crate::tap::blob_id(Path::new(n))).collect();
    let mut w: World<K4> = match World::open(dir.clone(), cfg.clone(), false).await {
        Ok(w) => w,
        Err(e) => {
            obs.init_err = Some(format!("{e:#}"));
            no_harm_step("failed init", &mut snap, &dir, &mut obs.no_harm);
            ctl::with_ctl(|c| obs.no_harm.extend(crate::tap::append_only_violations_in(&c.log.borrow(), log_from, usize::MAX, &mut ever)));
            world::remove_dir(&dir);
            return obs;
        }
    };
    ctl::quiesce().await;
    no_harm_step("init", &mut snap, &dir, &mut obs.no_harm);
    for k in &keys {
        obs.keys.insert(*k, w.observe_key(*k, &[0]).await);
    }
    obs.corrupted_count = w.s().corrupted_blobs_count();
    for (id, p) in crate::blobfile::blob_files(&dir.join("corrupted")) {
        let bytes = std::fs::read(&p).unwrap_or_default();
        // (second level: the first recovery may already have moved the file)
        let identical = state.get(&format!("t.{id}.blob")).map_or(false, |b| *b == bytes) || state.get(&format!("corrupted/t.{id}.blob")).map_or(false, |b| *b == bytes);
        obs.quarantined.insert(id, identical);
        // what the recovery tool brings back
        let outp = dir.join(format!("recovered.{id}.out"));
        let mut tags = BTreeSet::new();
        if pearl::tools::recovery_blob(&p, &outp, 1, false).is_ok() {
            let rb = std::fs::read(&outp).unwrap_or_default();
            let parsed = crate::blobfile::parse(&rb, 4);
            for r in parsed.records {
                if !r.deleted && r.data_crc_ok {
                    let d0 = r.data_offset() as usize;
                    tags.insert(world::value_tag(&rb[d0..d0 + r.data_len as usize]));
                }
            }
        }
        let _ = std::fs::remove_file(&outp);
        obs.recovered.insert(id, tags);
    }
    // usable: probe writes survive two further restarts
    w.label_prefix = "probe".into();
    let p1 = w.apply(Op::w(9, 99)).await;
    let mut probe = |r: &Outcome, what: &str| -> Result<(), String> {
        if matches!(r, Outcome::Res(Res::Ok, _)) {
            Ok(())
        } else {
            Err(format!("{what}: {r:?}"))
        }
    };
    obs.probe_ok = probe(&p1, "probe write");
    ctl::quiesce().await;
    no_harm_step("probe write", &mut snap, &dir, &mut obs.no_harm);
    if obs.probe_ok.is_ok() {
        for round in 0..2 {
            if round == 1 {
                // the second restart follows a kill: nothing was dumped, every index is rebuilt
                // from its blob (a record accepted behind damaged bytes would surface here)
                let _ = w.close().await;
                for (n, _) in world::dir_listing(&dir) {
                    if n.ends_with(".index") {
                        let _ = std::fs::remove_file(dir.join(n));
                    }
                }
                let before = w.cfg.clone();
                match w.init(false).await {
                    Ok(()) => {}
                    Err(e) => {
                        obs.probe_ok = Err(format!("restart after a kill following the recovery failed: {e:#}"));
                        break;
                    }
                }
                let _ = before;
                ctl::quiesce().await;
                no_harm_step("restart without index files", &mut snap, &dir, &mut obs.no_harm);
                if w.s().corrupted_blobs_count() > obs.corrupted_count {
                    obs.probe_ok = Err(format!(
                        "a blob that the recovery had accepted (or created) was quarantined by the next start: corrupted blobs {} -> {}",
                        obs.corrupted_count,
                        w.s().corrupted_blobs_count()
                    ));
                    break;
                }
                let ko = w.observe_key(9, &[]).await;
                if !matches!(ko.read, RR::Found { .. }) {
                    obs.probe_ok = Err(format!("probe record after a kill + restart: {:?}", ko.read));
                    break;
                }
                for k in &keys {
                    let ko = w.observe_key(*k, &[0]).await;
                    if let Some(first) = obs.keys.get(k) {
                        if ko.read != first.read {
                            obs.probe_ok = Err(format!("k{k}: served {:?} right after the recovery, {:?} after a further kill + restart", first.read, ko.read));
                        }
                    }
                }
                continue;
            }
            let r = w.apply(Op::Rst).await;
            if let Err(e) = probe(&r, &format!("restart {round} after recovery")) {
                obs.probe_ok = Err(e);
                break;
            }
            ctl::quiesce().await;
            no_harm_step("restart", &mut snap, &dir, &mut obs.no_harm);
            let ko = w.observe_key(9, &[]).await;
            if !matches!(ko.read, RR::Found { .. }) {
                obs.probe_ok = Err(format!("probe record after restart {round}: {:?}", ko.read));
                break;
            }
        }
    }
    let _ = w.close().await;
    no_harm_step("close", &mut snap, &dir, &mut obs.no_harm);
    ctl::with_ctl(|c| obs.no_harm.extend(crate::tap::append_only_violations_in(&c.log.borrow(), log_from, usize::MAX, &mut ever)));
    world::remove_dir(&dir);
    obs
}

struct Batch {
    cp: CrashPoint,
    states: Vec<(String, State)>,
}

async fn batch_task(spec: CrashSpec, cfgs: Vec<WCfg>, batch: Vec<(usize, String, State, Option<usize>)>) -> Vec<(usize, usize, RecoveryObs)> {
    let mut out = Vec::new();
    for (si, _, state, only_cfg) in batch {
        for (ci, cfg) in cfgs.iter().enumerate() {
            if only_cfg.map_or(false, |o| o != ci) {
                continue;
            }
            let (c, s, k) = (cfg.clone(), state.clone(), spec.keys.clone());
            let h = pearl::verif::spawn("variant", async move { recover_one(c, s, k).await });
            let obs = match h.await {
                Ok(o) => o,
                Err(e) => RecoveryObs {
                    init_err: None,
                    keys: BTreeMap::new(),
                    corrupted_count: 0,
                    quarantined: BTreeMap::new(),
                    recovered: BTreeMap::new(),
                    probe_ok: Ok(()),
                    panicked: Some(format!("{e}: {:?}", ctl::take_panic_msgs())),
                    no_harm: Vec::new(),
                },
            };
            out.push((si, ci, obs));
        }
    }
    out
}

#[derive(Debug, Default, Clone, serde::Serialize)]
pub struct CrashStats {
    pub histories: usize,
    pub log_events: usize,
    pub crash_points: usize,
    pub distinct_states: usize,
    pub recoveries: usize,
    pub kill_states: usize,
    pub power_loss_states: usize,
    pub second_level_states: usize,
    pub violations: usize,
    pub violations_by_kind: BTreeMap<String, usize>,
    pub samples: Vec<String>,
}

#[derive(Debug, Clone, serde::Serialize)]
pub struct CrashViolation {
    pub spec: CrashSpec,
    pub crash_after_event: usize,
    pub state: String,
    pub config: String,
    pub findings: Vec<Finding>,
}

pub struct CrashResult {
    pub stats: CrashStats,
    pub violations: Vec<CrashViolation>,
}

pub fn recovery_configs() -> Vec<WCfg> {
    let mut v = Vec::new();
    for validate in [false, true] {
        for ignore in [false, true] {
            let mut c = WCfg::default();
            c.validate_data = validate;
            c.ignore_corrupted = ignore;
            v.push(c);
        }
    }
    v
}

pub fn run(specs: &[CrashSpec], threads: usize, max_states_per_history: usize, oracle: CrashOracle) -> CrashResult {
    use std::sync::Arc;
    let mut stats = CrashStats::default();
    let mut violations: Vec<CrashViolation> = Vec::new();
    let cfgs = recovery_configs();
    struct Work {
        crash_after: usize,
        cp: CrashPoint,
        name: String,
        state: StateSpec,
        /// second-level states are recovered under the configuration of the interrupted recovery
        only_cfg: Option<usize>,
    }
    // history by history: the states of one history are built, recovered, judged and dropped
    for spec in specs.iter() {
        let rec = match record(spec) {
            Ok(r) => r,
            Err(e) => {
                violations.push(CrashViolation { spec: spec.clone(), crash_after_event: 0, state: String::new(), config: String::new(), findings: vec![finding("machinery", e)] });
                continue;
            }
        };
        stats.histories += 1;
        let io_events = rec.events.iter().filter(|e| !matches!(e, Ev::Begin(_) | Ev::End(..))).count();
        stats.log_events += io_events;
        let mut work: Vec<Work> = Vec::new();
        let mut fs = SimFs::default();
        let mut seen: HashSet<u64> = HashSet::new();
        let mut acked: Vec<usize> = Vec::new();
        let mut inflight: Option<usize> = None;
        let mut sealed: BTreeSet<usize> = BTreeSet::new();
        let mut index_written: BTreeSet<usize> = BTreeSet::new();
        for (ei, ev) in rec.events.iter().enumerate() {
            // in-flight large write cut at page boundaries (kill)
            let mut partials: Vec<(String, StateSpec)> = Vec::new();
            if let Ev::Write { path, data, .. } = ev {
                if data.len() > 4096 {
                    let before = Arc::new(fs.clone());
                    let evarc = Arc::new(ev.clone());
                    let mut m = 4096;
                    while m < data.len() {
                        partials.push((
                            format!("kill inside write of {} at +{m}", short_path(path)),
                            StateSpec::Partial { fs: before.clone(), ev: evarc.clone(), upto: m, root: rec.dir.clone() },
                        ));
                        m += 4096;
                    }
                }
            }
            fs.apply(ev, &rec.dir);
            match ev {
                Ev::Begin(i) => inflight = Some(*i),
                Ev::End(i, ok) => {
                    if *ok {
                        acked.push(*i);
                    }
                    inflight = None;
                }
                Ev::Write { path, offset, data } => {
                    if is_blob(path) {
                        if let Some(id) = blob_id(path) {
                            sealed.remove(&id);
                            index_written.remove(&id);
                        }
                    } else if is_index(path) && *offset == 0 && data.len() == 83 && data[72] & 1 == 1 {
                        if let Some(id) = blob_id(path) {
                            index_written.insert(id);
                        }
                    }
                }
                Ev::Sync(p) if is_index(p) => {
                    if let Some(id) = blob_id(p) {
                        if index_written.contains(&id) {
                            sealed.insert(id);
                        }
                    }
                }
                Ev::Truncate(p) | Ev::Remove(p) if is_index(p) => {
                    if let Some(id) = blob_id(p) {
                        sealed.remove(&id);
                        index_written.remove(&id);
                    }
                }
                _ => {}
            }
            if matches!(ev, Ev::Begin(_) | Ev::End(..)) {
                continue;
            }
            stats.crash_points += 1;
            // model at this crash point
            let mut m = RefStore::fresh(spec.wcfg.allow_duplicates);
            m.max_data = spec.wcfg.max_data_in_blob;
            m.max_size = spec.wcfg.max_blob_size;
            for i in &acked {
                oracle::apply_model(&mut m, spec.history[*i], &value_tag_of(*i, &spec.history[*i]), 4);
            }
            let acked_per_blob: BTreeMap<usize, usize> = m.blobs().map(|b| (b.id, b.records.len())).collect();
            if let Some(i) = inflight {
                oracle::apply_model(&mut m, spec.history[i], &value_tag_of(i, &spec.history[i]), 4);
            }
            let snapshot = Arc::new(fs.clone());
            let mut candidates: Vec<(String, StateSpec, bool)> = vec![(format!("kill after event {ei}"), StateSpec::Full(snapshot.clone()), true)];
            for (n, sp) in partials {
                candidates.push((n, sp, true));
            }
            for (n, sp) in power_loss_states(&snapshot, spec.fine_limit) {
                candidates.push((format!("power loss after event {ei}: {n}"), sp, false));
            }
            for (name, sp, kill) in candidates {
                if work.len() >= max_states_per_history {
                    break;
                }
                let digest = state_digest(&materialise_spec(&sp)) ^ if kill { 0x9e37 } else { 0 };
                if seen.insert(digest) {
                    if kill {
                        stats.kill_states += 1;
                    } else {
                        stats.power_loss_states += 1;
                    }
                    work.push(Work {
                        crash_after: ei,
                        cp: CrashPoint { model: m.clone(), acked_per_blob: acked_per_blob.clone(), sealed: sealed.clone(), kill },
                        name,
                        state: sp,
                        only_cfg: None,
                    });
                }
            }
        }
        let _ = rec.outcomes;
        // second level: the recovery from a first-level state is itself killed after each of its
        // file operations (index regeneration dumps, quarantine renames, creation of a new blob)
        if spec.second_level_parents > 0 {
            let mut parents: Vec<usize> = (0..work.len()).filter(|i| work[*i].cp.kill).collect();
            let others: Vec<usize> = (0..work.len()).filter(|i| !work[*i].cp.kill).collect();
            // power-loss parents: spread evenly
            let room = spec.second_level_parents.saturating_sub(parents.len());
            if room > 0 && !others.is_empty() {
                let step = (others.len() / room).max(1);
                parents.extend(others.iter().step_by(step).take(room));
            }
            parents.truncate(spec.second_level_parents);
            let jobs: Vec<(usize, usize)> = parents.iter().flat_map(|p| [0usize, 2].into_iter().map(move |ci| (*p, ci))).collect();
            let next = AtomicUsize::new(0);
            let found: Mutex<Vec<(usize, usize, usize, State)>> = Mutex::new(Vec::new());
            let failures: Mutex<Vec<String>> = Mutex::new(Vec::new());
            std::thread::scope(|sc| {
                for _ in 0..threads.max(1) {
                    sc.spawn(|| loop {
                        let j = next.fetch_add(1, Ordering::Relaxed);
                        if j >= jobs.len() {
                            break;
                        }
                        let (p, ci) = jobs[j];
                        let st = materialise_spec(&work[p].state);
                        match record_recovery(&cfgs[ci], &st, spec.io_mode) {
                            Ok((events, root)) => {
                                let mut fs2 = simfs_of(&st);
                                let mut out = Vec::new();
                                for (ei, ev) in events.iter().enumerate() {
                                    fs2.apply(ev, &root);
                                    out.push((p, ci, ei, full_state(&fs2)));
                                }
                                found.lock().unwrap().extend(out);
                            }
                            Err(e) => failures.lock().unwrap().push(e),
                        }
                    });
                }
            });
            for e in failures.into_inner().unwrap() {
                violations.push(CrashViolation { spec: spec.clone(), crash_after_event: 0, state: String::new(), config: String::new(), findings: vec![finding("machinery", e)] });
            }
            let mut found = found.into_inner().unwrap();
            found.sort_by(|a, b| (a.0, a.1, a.2).cmp(&(b.0, b.1, b.2)));
            for (p, ci, ei, st2) in found {
                let digest = state_digest(&st2) ^ if work[p].cp.kill { 0x9e37 } else { 0 } ^ ((ci as u64 + 1) << 56);
                if seen.insert(digest) {
                    stats.second_level_states += 1;
                    work.push(Work {
                        crash_after: work[p].crash_after,
                        cp: work[p].cp.clone(),
                        name: format!("{} ; then killed after file operation {ei} of the recovery (validate_data={})", work[p].name, cfgs[ci].validate_data),
                        state: StateSpec::Direct(Arc::new(st2)),
                        only_cfg: Some(ci),
                    });
                }
            }
        }
        stats.distinct_states += work.len();
        // recover every state under every configuration (batches of states per execution)
        let batch_size = 24;
        let batches: Vec<Vec<usize>> = (0..work.len()).collect::<Vec<_>>().chunks(batch_size).map(|c| c.to_vec()).collect();
        let next = AtomicUsize::new(0);
        let results: Mutex<Vec<(usize, usize, Vec<Finding>)>> = Mutex::new(Vec::new());
        std::thread::scope(|sc| {
            for _ in 0..threads.max(1) {
                sc.spawn(|| loop {
                    let bi = next.fetch_add(1, Ordering::Relaxed);
                    if bi >= batches.len() {
                        break;
                    }
                    let states: Vec<State> = batches[bi].iter().map(|wi| materialise_spec(&work[*wi].state)).collect();
                    let items: Vec<(usize, String, State, Option<usize>)> = batches[bi].iter().zip(states.iter()).map(|(wi, st)| (*wi, work[*wi].name.clone(), st.clone(), work[*wi].only_cfg)).collect();
                    let mut cfg = CtlConfig::sequential(IoMode::Inplace);
                    cfg.auto_clock = None;
                    let (cfgs2, spec2) = (cfgs.clone(), spec.clone());
                    let exec = ctl::execute(cfg, &[], None, move || batch_task(spec2, cfgs2, items));
                    let mut judged = Vec::new();
                    match exec.result {
                        Ok(v) => {
                            for (wi, ci, obs) in v {
                                let pos = batches[bi].iter().position(|x| *x == wi).unwrap();
                                let fs = match oracle {
                                    CrashOracle::Recovery => judge_state(spec, &work[wi].cp, &cfgs[ci], &obs, &states[pos]),
                                    CrashOracle::NoHarm => obs.no_harm.iter().map(|v| finding("no_harm", v.clone())).collect(),
                                };
                                judged.push((wi, ci, fs));
                            }
                        }
                        Err(e) => {
                            for wi in &batches[bi] {
                                judged.push((*wi, 0, vec![finding("panic", format!("batch failed: {e}; end {:?}", exec.trace.end))]));
                            }
                        }
                    }
                    results.lock().unwrap().extend(judged);
                });
            }
        });
        let mut results = results.into_inner().unwrap();
        results.sort_by_key(|r| (r.0, r.1));
        for (wi, ci, fs) in results {
            stats.recoveries += 1;
            let w = &work[wi];
            if stats.samples.len() < 4 && wi % 211 == 7 && ci == 0 {
                stats.samples.push(format!("{} :: {}", spec.name, w.name));
            }
            if !fs.is_empty() {
                stats.violations += 1;
                let n = stats.violations_by_kind.entry(fs[0].kind.clone()).or_insert(0);
                *n += 1;
                // keep the first few of every kind
                if *n <= 6 {
                    violations.push(CrashViolation {
                        spec: spec.clone(),
                        crash_after_event: w.crash_after,
                        state: w.name.clone(),
                        config: format!("validate_data={} ignore_corrupted={}", cfgs[ci].validate_data, cfgs[ci].ignore_corrupted),
                        findings: fs,
                    });
                }
            }
        }
    }
    CrashResult { stats, violations }
}

#[allow(dead_code)]
fn _unused(_: Batch) {}
