//! C12: the sync-discipline clauses as predicates over the ordered I/O log.
//!
//! The harness puts markers into the log: `quiescent active=<id>` at every quiescent point,
//! `begin <op> active=<id>` / `end <op> ok|err` around every API call.

use crate::ctl::{is_blob, is_index};
use crate::oracle::{finding, Finding};
use crate::tap::{blob_id, short_path, Entry, IoLog, SyncState};
use pearl::verif::IoOp;

fn active_of(mark: &str) -> Option<usize> {
    mark.split("active=").nth(1)?.split_whitespace().next()?.parse().ok()
}

fn dirty_of_blob(st: &SyncState, id: usize) -> Option<(u64, u64)> {
    st.len
        .iter()
        .find(|(p, _)| is_blob(p) && blob_id(p) == Some(id) && !p.to_string_lossy().contains("/corrupted/"))
        .map(|(p, l)| (*l, st.synced.get(p).copied().unwrap_or(0)))
}

pub fn check_log(log: &IoLog, max_dirty: Option<u64>) -> Vec<Finding> {
    let max_dirty = max_dirty.unwrap_or(32 * 1024 * 1024);
    let mut st = SyncState::default();
    let mut out = Vec::new();
    let mut current: Option<(String, Option<usize>)> = None;
    for e in &log.entries {
        match e {
            Entry::Io { ev, faulted, .. } if !faulted => {
                match &ev.op {
                    IoOp::Write { offset, .. } if is_blob(&ev.path) && *offset >= 20 => {
                        // (b) the blob header is durable before any record is appended
                        let synced = st.synced.get(&ev.path).copied().unwrap_or(0);
                        if synced < 20 {
                            out.push(finding(
                                "sync.header",
                                format!(
                                    "record written to {} at offset {} before its header was synced (synced {})",
                                    short_path(&ev.path),
                                    offset,
                                    synced
                                ),
                            ));
                        }
                    }
                    IoOp::Write { offset: 0, data, .. } if is_index(&ev.path) && data.len() == 83 && data[72] & 1 == 1 => {
                        // (c) the index is marked complete only after the blob bytes it describes were synced
                        let blob_size = u64::from_le_bytes(data[75..83].try_into().unwrap());
                        let blob_path = ev.path.with_extension("blob");
                        let synced = st.synced.get(&blob_path).copied().unwrap_or(0);
                        if synced < blob_size {
                            out.push(finding(
                                "sync.index_before_blob",
                                format!(
                                    "{} marked complete for a blob of {} bytes, but only {} bytes of the blob are synced",
                                    short_path(&ev.path),
                                    blob_size,
                                    synced
                                ),
                            ));
                        }
                    }
                    _ => {}
                }
                st.apply(e);
            }
            Entry::Io { .. } | Entry::Opened { .. } => st.apply(e),
            Entry::Mark(m) => {
                if m.starts_with("quiescent") {
                    // (a) bounded un-synced data of the active blob without further client action
                    if let Some(id) = active_of(m) {
                        if let Some((len, synced)) = dirty_of_blob(&st, id) {
                            if len.saturating_sub(synced) > max_dirty {
                                out.push(finding(
                                    "sync.dirty_bound",
                                    format!(
                                        "at quiescence the active blob {} has {} un-synced bytes (len {}, synced {}), limit {}",
                                        id,
                                        len - synced,
                                        len,
                                        synced,
                                        max_dirty
                                    ),
                                ));
                            }
                        }
                    }
                } else if let Some(rest) = m.strip_prefix("begin ") {
                    let name = rest.split_whitespace().next().unwrap_or("").to_string();
                    current = Some((name, active_of(m)));
                } else if let Some(rest) = m.strip_prefix("end ") {
                    let ok = rest.ends_with(" ok");
                    if let Some((name, Some(id))) = current.take() {
                        // (d) explicit fsyncdata / successful close of the active blob leave nothing un-synced
                        if ok && matches!(name.as_str(), "Fsync" | "TryClose" | "Rst" | "RstLazy" | "CloseBg") {
                            if let Some((len, synced)) = dirty_of_blob(&st, id) {
                                if synced < len {
                                    out.push(finding(
                                        "sync.explicit",
                                        format!(
                                            "after {} returned, blob {} still has {} un-synced bytes (len {}, synced {})",
                                            name,
                                            id,
                                            len - synced,
                                            len,
                                            synced
                                        ),
                                    ));
                                }
                            }
                        }
                    }
                }
            }
        }
    }
    out
}
