//! fault engine (C11): for a history, every placement of one failing file operation (kind x file
//! class x n-th occurrence x errno / short write), each run deterministically under the default
//! schedule; acknowledged data must stay readable, failed operations must stay invisible, the
//! storage must keep working after the fault clears and after a restart.

use std::collections::{BTreeMap, BTreeSet};
use std::sync::atomic::{AtomicUsize, Ordering};
use std::sync::Mutex;

use pearl::ArrayKey;

use crate::ctl::{self, CtlConfig, EndState, IoMode};
use crate::model::{KeyId, RefStore, Res, RR};
use crate::oracle::{self, finding, Finding};
use crate::tap::{Entry, FaultKind, FaultOp, FaultPlan, FileClass, ShortSpec};
use crate::world::{self, KeyObs, Op, Outcome, WCfg, World};

type K4 = ArrayKey<4>;

#[derive(Debug, Clone, serde::Serialize)]
pub struct FaultSpec {
    pub name: String,
    pub wcfg: WCfg,
    #[serde(skip)]
    pub io_mode: IoMode,
    pub io: String,
    pub history: Vec<Op>,
    pub keys: Vec<KeyId>,
}

impl FaultSpec {
    pub fn new(name: &str, io_mode: IoMode, history: Vec<Op>) -> Self {
        Self {
            name: name.to_string(),
            wcfg: WCfg::default(),
            io_mode,
            io: format!("{io_mode:?}"),
            history,
            keys: vec![0, 1, 2, 8],
        }
    }
}

#[derive(Debug, Clone)]
struct StepRec {
    op: Op,
    outcome: Outcome,
    fired_here: bool,
    obs: BTreeMap<KeyId, KeyObs>,
    worker_alive: bool,
}

#[derive(Debug, Clone, Default)]
struct RunOut {
    steps: Vec<StepRec>,
    /// observation after the final restart
    after_restart: Option<BTreeMap<KeyId, KeyObs>>,
    restart_err: Option<String>,
    corrupted_after: usize,
    /// a further restart with every index file removed (what a stop without close leaves):
    /// indexes are regenerated from the blobs, torn bytes of a failed append are scanned
    after_restart_noindex: Option<BTreeMap<KeyId, KeyObs>>,
    restart_noindex_err: Option<String>,
    corrupted_after_noindex: usize,
    quarantined_bytes: Vec<u8>,
    findings: Vec<Finding>,
    fired: bool,
    /// C07 monitors: snapshot comparison between consecutive moments + append-only log predicates
    no_harm: Vec<Finding>,
}

/// Which clauses a run is judged by (the runs are the same).
#[derive(Debug, Clone, Copy, PartialEq, Eq)]
pub enum FaultOracle {
    /// C11: acknowledged data stays readable, failed operations stay invisible, storage usable
    Containment,
    /// C07: blob bytes are never modified / truncated / deleted, ids are never reused
    NoHarm,
}

/// Operations appended after the history once the fault has cleared.
fn epilogue() -> Vec<Op> {
    vec![Op::w(8, 30), Op::d(8, 31), Op::w(8, 32), Op::Rot, Op::w(8, 33)]
}

async fn main_task(spec: FaultSpec) -> RunOut {
    let mut out = RunOut::default();
    let dir = world::fresh_dir();
    let mut w: World<K4> = match World::open(dir.clone(), spec.wcfg.clone(), false).await {
        Ok(w) => w,
        Err(e) => {
            out.findings.push(finding("machinery", format!("fault-free init failed: {e:#}")));
            return out;
        }
    };
    ctl::quiesce().await;
    ctl::with_ctl(|c| {
        if let Some(p) = c.fault.borrow_mut().as_mut() {
            p.armed = true;
        }
    });
    let mut snap = crate::tap::snapshot_blobs(&dir);
    let all: Vec<Op> = spec.history.iter().cloned().chain(epilogue()).collect();
    for (step, op) in all.into_iter().enumerate() {
        let fired_before = ctl::with_ctl(|c| c.fault.borrow().as_ref().map_or(0, |p| p.fires));
        ctl::with_ctl(|c| c.log.borrow_mut().mark(format!("begin {}", op.short())));
        let outcome = w.apply(op).await;
        if w.storage.is_none() {
            // a restart op failed: retry until the burst is over (at most three faults)
            let mut last = String::new();
            for _ in 0..4 {
                match w.init(false).await {
                    Ok(()) => break,
                    Err(e) => last = format!("{e:#}"),
                }
            }
            if w.storage.is_none() {
                out.findings.push(finding("restart_after_fault", format!("init keeps failing after the fault cleared: {last}")));
                return out;
            }
        }
        ctl::quiesce().await;
        let snap2 = crate::tap::snapshot_blobs(&dir);
        for v in crate::tap::snapshot_violations(&snap, &snap2) {
            out.no_harm.push(finding("snapshot", format!("across {} (step {step}): {v}", op.short())));
        }
        snap = snap2;
        let fired_after = ctl::with_ctl(|c| c.fault.borrow().as_ref().map_or(0, |p| p.fires));
        let mut obs = BTreeMap::new();
        for k in &spec.keys {
            obs.insert(*k, w.observe_key(*k, &[0]).await);
        }
        out.steps.push(StepRec {
            op,
            outcome,
            fired_here: fired_after > fired_before,
            obs,
            worker_alive: ctl::with_ctl(|c| c.task_alive("worker")),
        });
    }
    out.fired = ctl::with_ctl(|c| c.fault.borrow().as_ref().map_or(false, |p| p.fired));
    // the final close + restart belong to the oracle, not to the history: no fault there
    ctl::with_ctl(|c| {
        if let Some(p) = c.fault.borrow_mut().as_mut() {
            p.armed = false;
        }
        c.log.borrow_mut().mark("steps-done");
    });
    if let Err(e) = w.close().await {
        out.findings.push(finding("close", format!("close failed: {e:#}")));
    }
    match w.init(false).await {
        Err(e) => out.restart_err = Some(format!("{e:#}")),
        Ok(()) => {
            ctl::quiesce().await;
            let mut obs = BTreeMap::new();
            for k in &spec.keys {
                obs.insert(*k, w.observe_key(*k, &[0]).await);
            }
            out.after_restart = Some(obs);
            out.corrupted_after = w.s().corrupted_blobs_count();
            for v in crate::tap::snapshot_violations(&snap, &crate::tap::snapshot_blobs(&dir)) {
                out.no_harm.push(finding("snapshot", format!("across the final close + restart: {v}")));
            }
            let snap2 = crate::tap::snapshot_blobs(&dir);
            let _ = w.close().await;
            for (n, _) in world::dir_listing(&dir) {
                if n.ends_with(".index") {
                    let _ = std::fs::remove_file(dir.join(n));
                }
            }
            match w.init(false).await {
                Err(e) => out.restart_noindex_err = Some(format!("{e:#}")),
                Ok(()) => {
                    ctl::quiesce().await;
                    let mut obs = BTreeMap::new();
                    for k in &spec.keys {
                        obs.insert(*k, w.observe_key(*k, &[0]).await);
                    }
                    out.after_restart_noindex = Some(obs);
                    out.corrupted_after_noindex = w.s().corrupted_blobs_count();
                    for v in crate::tap::snapshot_violations(&snap2, &crate::tap::snapshot_blobs(&dir)) {
                        out.no_harm.push(finding("snapshot", format!("across the restart without index files: {v}")));
                    }
                    let _ = w.close().await;
                }
            }
        }
    }
    for (_, p) in crate::blobfile::blob_files(&dir.join("corrupted")) {
        out.quarantined_bytes.extend(std::fs::read(p).unwrap_or_default());
    }
    world::remove_dir(&dir);
    out
}

fn contains(hay: &[u8], needle: &[u8]) -> bool {
    !needle.is_empty() && hay.windows(needle.len()).any(|w| w == needle)
}

fn judge(spec: &FaultSpec, run: &RunOut, end: &EndState, panics: &[String], oracle: FaultOracle) -> Vec<Finding> {
    let mut fs = run.findings.clone();
    match end {
        EndState::Finished => {}
        EndState::Deadlock(t) => fs.push(finding("deadlock", format!("{t:?}"))),
        other => fs.push(finding("machinery", format!("{other:?}"))),
    }
    if !panics.is_empty() {
        fs.push(finding("panic", format!("{panics:?}")));
    }
    if oracle == FaultOracle::NoHarm {
        // only what C07 states; a run that did not complete is reported by C11
        fs.retain(|f| f.kind == "machinery");
        fs.extend(run.no_harm.iter().cloned());
        return fs;
    }
    if !fs.is_empty() {
        return fs;
    }
    let mut m0 = RefStore::fresh(spec.wcfg.allow_duplicates);
    m0.max_data = spec.wcfg.max_data_in_blob;
    m0.max_size = spec.wcfg.max_blob_size;
    // candidate models: a failed write / unconditional delete may or may not have created the
    // active blob before it failed; both are carried until a later outcome tells them apart
    let mut cands: Vec<RefStore> = vec![m0];
    // value bytes of every write, by op index, and whether it was acknowledged
    let mut acked_values: Vec<(KeyId, Vec<u8>)> = Vec::new();
    let mut failed_values: Vec<(KeyId, Vec<u8>)> = Vec::new();
    let mut fault_seen = false;
    for (i, st) in run.steps.iter().enumerate() {
        let ok = !matches!(st.outcome, Outcome::Res(Res::Err, _) | Outcome::Count(Err(_)));
        if st.fired_here {
            fault_seen = true;
        }
        let (tag, bytes) = match st.op {
            Op::Write { k, ts, size, .. } => {
                let b = world::value_bytes(&format!("w{}k{}t{}", i, k, ts), size as usize);
                (world::value_tag(&b), Some((k, b)))
            }
            _ => (String::new(), None),
        };
        if !st.worker_alive {
            fs.push(finding("worker_dead", format!("after {} (step {i}) the worker is gone", st.op.short())));
            return fs;
        }
        let mut next: Vec<RefStore> = Vec::new();
        let mut rejected: Vec<Finding> = Vec::new();
        for m in &cands {
            let mut out: Vec<RefStore> = Vec::new();
            let mut m2 = m.clone();
            let exp = oracle::apply_model(&mut m2, st.op, &tag, 4);
            if ok {
                // lifecycle calls may fail on their precondition
                if let (oracle::Expect::Res(Res::Err), Outcome::Res(Res::Ok, _)) = (&exp, &st.outcome) {
                    rejected.push(finding("outcome", format!("{} (step {i}) returned Ok, model says Err", st.op.short())));
                    continue;
                }
                out.push(m2);
                // a background request returns before it is carried out: if the fault fired
                // while the worker carried it out, the worker logs the error and nothing changes
                if st.fired_here && matches!(st.op, Op::Rot | Op::ForceNever | Op::CloseBg | Op::CreateBg | Op::RestoreBg) {
                    out.push(m.clone());
                }
            } else {
                // an error is only acceptable from the call during which the fault fired, or from a
                // lifecycle call whose precondition does not hold
                let precondition = matches!(exp, oracle::Expect::Res(Res::Err));
                if precondition {
                    out.push(m2);
                } else if !st.fired_here {
                    rejected.push(finding(
                        "error_without_fault",
                        format!(
                            "{} (step {i}) failed although the fault {}: {:?}",
                            st.op.short(),
                            if fault_seen { "had already cleared" } else { "had not fired yet" },
                            st.outcome
                        ),
                    ));
                    continue;
                } else {
                    out.push(m.clone());
                    if matches!(st.op, Op::Write { .. } | Op::Delete { oip: false, .. }) && m.active.is_none() {
                        let mut with_active = m.clone();
                        with_active.ensure_active();
                        out.push(with_active);
                    }
                }
            }
            // everything acknowledged reads back; nothing that failed is visible
            for m3 in out {
                let mut bad = None;
                for (k, ko) in &st.obs {
                    let want = oracle::model_key_obs(&m3, *k, &[0]);
                    if ko.read != want.read || ko.contains != want.contains || ko.all_wdm != want.all_wdm {
                        bad = Some(finding(
                            "session_answers",
                            format!(
                                "after {} (step {i}{}) k{k}: read {:?} / list {:?}, model of acknowledged operations: {:?} / {:?}",
                                st.op.short(),
                                if st.fired_here { ", the faulted call" } else { "" },
                                ko.read,
                                ko.all_wdm,
                                want.read,
                                want.all_wdm
                            ),
                        ));
                        break;
                    }
                }
                match bad {
                    Some(f) => rejected.push(f),
                    None => {
                        if !next.contains(&m3) {
                            next.push(m3);
                        }
                    }
                }
            }
        }
        if next.is_empty() {
            fs.extend(rejected.into_iter().take(1));
            return fs;
        }
        cands = next;
        if let Some(b) = bytes {
            if ok {
                acked_values.push(b);
            } else {
                failed_values.push(b);
            }
        }
    }
    let m = cands.remove(0);
    // after restart, and after a further restart without index files
    let phases: [(&str, &Option<String>, &Option<BTreeMap<KeyId, KeyObs>>, usize); 2] = [
        ("restart", &run.restart_err, &run.after_restart, run.corrupted_after),
        ("restart without index files", &run.restart_noindex_err, &run.after_restart_noindex, run.corrupted_after_noindex),
    ];
    for (what, err, obs, corrupted) in phases {
        if let Some(e) = err {
            fs.push(finding("restart", format!("init ({what}) after the session failed: {e}")));
            return fs;
        }
        let Some(obs) = obs else { continue };
        for (k, ko) in obs {
            let want = oracle::model_key_obs(&m, *k, &[0]);
            if ko.read == want.read && ko.all_wdm == want.all_wdm && ko.contains == want.contains {
                continue;
            }
            // not served as before: acceptable only if every acknowledged value of this key that is
            // no longer served sits intact in a quarantined blob, and nothing that failed is served
            let served: BTreeSet<String> = match &ko.all_wdm {
                Ok(l) => l.iter().map(|e| e.val.clone()).collect(),
                Err(_) => BTreeSet::new(),
            };
            for (fk, fb) in &failed_values {
                if fk == k && served.contains(&world::value_tag(fb)) {
                    fs.push(finding("failed_op_served", format!("k{k}: a write that returned an error is served after the {what}")));
                }
            }
            let mut lost = Vec::new();
            if let Ok(want_list) = &want.all_wdm {
                for e in want_list.iter().filter(|e| !e.del) {
                    if !served.contains(&e.val) {
                        let bytes = acked_values.iter().find(|(kk, b)| kk == k && world::value_tag(b) == e.val);
                        let intact = bytes.map_or(false, |(_, b)| contains(&run.quarantined_bytes, b));
                        if !intact {
                            lost.push(e.val.clone());
                        }
                    }
                }
            }
            if !lost.is_empty() || corrupted == 0 {
                fs.push(finding(
                    "restart_answers",
                    format!(
                        "after the {what} k{k}: read {:?} / contains {:?} / list {:?}, model {:?} / {:?} / {:?}; quarantined blobs {}; acknowledged values neither served nor intact in quarantine: {:?}",
                        ko.read, ko.contains, ko.all_wdm, want.read, want.contains, want.all_wdm, corrupted, lost
                    ),
                ));
            }
        }
        if !fs.is_empty() {
            return fs;
        }
    }
    fs
}

fn run_one(spec: &FaultSpec, plan: Option<FaultPlan>) -> (RunOut, EndState, Vec<String>, Vec<(FaultOp, FileClass)>) {
    let mut cfg = CtlConfig::sequential(spec.io_mode);
    cfg.auto_clock = None;
    let s = spec.clone();
    let mut plan = plan;
    if let Some(p) = plan.as_mut() {
        p.armed = false;
    }
    let exec = ctl::execute(cfg, &[], plan, move || main_task(s));
    let panics = exec.ctl.panics.borrow().clone();
    // operations seen after arming (for the fault-free baseline: the placement menu)
    let mut seen = Vec::new();
    let mut armed = false;
    for e in &exec.ctl.log.borrow().entries {
        match e {
            Entry::Mark(m) if m.starts_with("begin ") => armed = true,
            Entry::Mark(m) if m == "steps-done" => break,
            Entry::Io { ev, .. } if armed => {
                for op in [FaultOp::Create, FaultOp::Open, FaultOp::Write, FaultOp::Sync, FaultOp::Truncate, FaultOp::Rename, FaultOp::Remove, FaultOp::Mkdir, FaultOp::Read] {
                    for class in [FileClass::Blob, FileClass::Index] {
                        if FaultPlan::matches(op, class, ev) {
                            seen.push((op, class));
                        }
                    }
                }
            }
            _ => {}
        }
    }
    let mut out = exec.result.unwrap_or_else(|e| RunOut {
        findings: vec![finding("panic", format!("{e}; {panics:?}"))],
        ..Default::default()
    });
    let mut ever = BTreeSet::new();
    for v in crate::tap::append_only_violations(&exec.ctl.log.borrow(), 0, &mut ever) {
        out.no_harm.push(finding("append_only", v));
    }
    (out, exec.trace.end, panics, seen)
}

#[derive(Debug, Default, Clone, serde::Serialize)]
pub struct FaultStats {
    pub histories: usize,
    pub runs: usize,
    pub placements_not_reached: usize,
    pub distinct_outcomes: usize,
    pub violations: usize,
    pub samples: Vec<String>,
}

#[derive(Debug, Clone, serde::Serialize)]
pub struct FaultViolation {
    pub spec: FaultSpec,
    pub plan: FaultPlan,
    pub findings: Vec<Finding>,
}

pub struct FaultResult {
    pub stats: FaultStats,
    pub violations: Vec<FaultViolation>,
}

pub fn run(specs: &[FaultSpec], thorough: bool, with_reads: bool, threads: usize, oracle: FaultOracle) -> FaultResult {
    // menu per history from the fault-free baseline
    let mut items: Vec<(usize, FaultPlan)> = Vec::new();
    let mut stats = FaultStats::default();
    let mut violations = Vec::new();
    for (si, spec) in specs.iter().enumerate() {
        let (out, end, panics, seen) = run_one(spec, None);
        let base = judge(spec, &out, &end, &panics, oracle);
        if !base.is_empty() {
            stats.violations += 1;
            violations.push(FaultViolation {
                spec: spec.clone(),
                plan: FaultPlan::new(FaultOp::Read, FileClass::Any, usize::MAX, FaultKind::Errno(0)),
                findings: base,
            });
            continue;
        }
        stats.histories += 1;
        let mut counts: BTreeMap<(FaultOp, FileClass), usize> = BTreeMap::new();
        for s in seen {
            *counts.entry(s).or_insert(0) += 1;
        }
        for ((op, class), n) in counts {
            if op == FaultOp::Read && !with_reads {
                continue;
            }
            for nth in 0..n {
                let mut kinds = vec![FaultKind::Errno(libc::ENOSPC), FaultKind::Errno(libc::EIO)];
                if op == FaultOp::Write {
                    let shorts: &[ShortSpec] = if thorough {
                        &[ShortSpec::Zero, ShortSpec::One, ShortSpec::Half, ShortSpec::AllButOne]
                    } else {
                        &[ShortSpec::One, ShortSpec::Half, ShortSpec::AllButOne]
                    };
                    for s in shorts {
                        kinds.push(FaultKind::Short(*s, libc::ENOSPC));
                        if thorough {
                            kinds.push(FaultKind::Short(*s, libc::EIO));
                        }
                    }
                }
                if op == FaultOp::Read {
                    kinds = vec![FaultKind::Errno(libc::EIO)];
                }
                for kind in kinds {
                    // a single fault, and the same fault persisting over the next matching
                    // operations (a full disk does not go away after one failed call)
                    let repeats: &[usize] = if thorough { &[1, 2, 3] } else { &[1, 2] };
                    for &rep in repeats {
                        if rep > 1 && (op == FaultOp::Read || matches!(kind, FaultKind::Short(..))) {
                            continue;
                        }
                        items.push((si, FaultPlan::new(op, class, nth, kind).repeated(rep)));
                    }
                }
            }
        }
    }
    let next = AtomicUsize::new(0);
    let results: Mutex<Vec<(usize, Vec<Finding>, bool, u64)>> = Mutex::new(Vec::new());
    std::thread::scope(|sc| {
        for _ in 0..threads.max(1) {
            sc.spawn(|| loop {
                let i = next.fetch_add(1, Ordering::Relaxed);
                if i >= items.len() {
                    break;
                }
                let (si, plan) = &items[i];
                let (out, end, panics, _) = run_one(&specs[*si], Some(plan.clone()));
                let fs = judge(&specs[*si], &out, &end, &panics, oracle);
                let digest = {
                    use std::hash::{Hash, Hasher};
                    let mut h = std::collections::hash_map::DefaultHasher::new();
                    out.steps.iter().map(|s| (&s.outcome, s.fired_here)).collect::<Vec<_>>().hash(&mut h);
                    out.corrupted_after.hash(&mut h);
                    out.corrupted_after_noindex.hash(&mut h);
                    h.finish()
                };
                results.lock().unwrap().push((i, fs, out.fired, digest));
            });
        }
    });
    let mut results = results.into_inner().unwrap();
    results.sort_by_key(|r| r.0);
    let mut digests = BTreeSet::new();
    for (i, fs, fired, digest) in results {
        stats.runs += 1;
        digests.insert(digest);
        if !fired {
            stats.placements_not_reached += 1;
        }
        let (si, plan) = &items[i];
        if stats.samples.len() < 4 && i % 97 == 3 {
            stats.samples.push(format!("{} :: {:?} {:?} #{} {:?} x{}", specs[*si].name, plan.op, plan.class, plan.nth, plan.kind, plan.repeat));
        }
        if !fs.is_empty() {
            stats.violations += 1;
            if violations.len() < 60 {
                violations.push(FaultViolation {
                    spec: specs[*si].clone(),
                    plan: plan.clone(),
                    findings: fs,
                });
            }
        }
    }
    stats.distinct_outcomes = digests.len();
    FaultResult { stats, violations }
}
