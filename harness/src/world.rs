//! A real pearl storage in a scratch directory, driven by `Op`s, observed into `Obs`.

use std::collections::BTreeMap;
use std::path::{Path, PathBuf};
use std::sync::atomic::{AtomicU64, Ordering};
use std::time::Duration;

use bytes::Bytes;
use pearl::{
    BlobRecordTimestamp, BloomConfig, BloomProvider, Builder, Key, Meta, ReadResult, Storage,
};

use crate::model::{KeyId, ListEntry, MetaId, Res, RR};

pub const ABSENT_KEY: KeyId = 250;

/// Key types the harness can drive (`ArrayKey<N>`).
pub trait HKey: for<'a> Key<'a> + AsRef<Self> + 'static {}
impl<T: for<'a> Key<'a> + AsRef<T> + 'static> HKey for T {}


#[derive(Debug, Clone, Copy, PartialEq, Eq, Hash, PartialOrd, Ord, serde::Serialize, serde::Deserialize)]
pub enum BloomCfg {
    None,
    Default,
    /// tiny filter: max_buf_bits_count = n
    Bits(usize),
    /// the same n bits probed with k hash functions (default: 2)
    BitsK(usize, usize),
}

#[derive(Debug, Clone, PartialEq, Eq, Hash, serde::Serialize, serde::Deserialize)]
pub struct WCfg {
    pub allow_duplicates: bool,
    pub bloom: BloomCfg,
    pub group_size: usize,
    pub max_data_in_blob: u64,
    pub max_blob_size: u64,
    pub validate_data: bool,
    pub ignore_corrupted: bool,
    pub max_dirty: Option<u64>,
    pub debounce_ms: u64,
    /// blob file name prefix ("t" everywhere except where a check varies it)
    pub prefix: &'static str,
}

impl Default for WCfg {
    fn default() -> Self {
        Self {
            allow_duplicates: true,
            bloom: BloomCfg::Bits(1024),
            group_size: 8,
            max_data_in_blob: 1_000_000,
            max_blob_size: 1_000_000_000,
            validate_data: false,
            ignore_corrupted: false,
            max_dirty: None,
            debounce_ms: 0,
            prefix: "t",
        }
    }
}

#[derive(Debug, Clone, Copy, PartialEq, Eq, Hash, PartialOrd, Ord, serde::Serialize, serde::Deserialize)]
pub enum Op {
    /// `write` (meta None) / `write_with`; `size` is the value length
    Write { k: KeyId, ts: u64, meta: Option<MetaId>, size: u32 },
    /// `delete` (meta 0) / `delete_with`
    Delete { k: KeyId, ts: u64, oip: bool, meta: MetaId },
    /// `force_update_active_blob(|_| true)`
    Rot,
    /// `force_update_active_blob(|_| false)`
    ForceNever,
    TryClose,
    TryCreate,
    TryRestore,
    CloseBg,
    CreateBg,
    RestoreBg,
    FreeExcess,
    Offload { level: usize },
    Fsync,
    /// advance the paused clock by 200 s (past any deferred-dump deadline) and run to quiescence
    Tick,
    /// advance the paused clock by 45 s (less than the minimal deferral)
    TickShort,
    /// close + build + init
    Rst,
    /// close + build + init_lazy
    RstLazy,
    /// close, cut the highest-id blob inside its last record header (or inside the blob header
    /// if it holds no record) so that the next start quarantines it, build + init
    DamageRst,
    /// the same with `init_lazy`: if the damaged blob was the only one, the storage starts with
    /// neither an active nor a closed blob
    DamageRstLazy,
    /// the storage is dropped without `close` (what a kill leaves inside one process: nothing
    /// dumped, nothing synced beyond what the background sync did), then build + init
    KillRst,
    KillRstLazy,
    /// close, then build + init with the other number of bloom hash functions (same bit count):
    /// blobs written under different filter configurations coexist afterwards
    RstOtherHashers,
}

impl Op {
    pub fn w(k: KeyId, ts: u64) -> Op {
        Op::Write { k, ts, meta: None, size: 24 }
    }
    pub fn d(k: KeyId, ts: u64) -> Op {
        Op::Delete { k, ts, oip: false, meta: 0 }
    }
    pub fn short(&self) -> String {
        match self {
            Op::Write { k, ts, meta, size } => {
                let m = meta.map_or(String::new(), |m| format!(",m{m}"));
                let s = if *size == 24 { String::new() } else { format!(",{size}B") };
                format!("W(k{k},{ts}{m}{s})")
            }
            Op::Delete { k, ts, oip, meta } => {
                let m = if *meta == 0 { String::new() } else { format!(",m{meta}") };
                format!("D(k{k},{ts},{}{m})", if *oip { "oip" } else { "all" })
            }
            Op::Offload { level } => format!("Offload({level})"),
            o => format!("{o:?}"),
        }
    }
}

pub fn key_bytes(k: KeyId, len: usize) -> Vec<u8> {
    // first byte = id (so key order == id order), the rest a filler depending on the id
    (0..len).map(|i| if i == 0 { k } else { k ^ 0x5a }).collect()
}

pub fn make_key<K: HKey>(k: KeyId) -> K {
    K::from(key_bytes(k, K::LEN as usize))
}

pub fn key_id(bytes: &[u8]) -> KeyId {
    bytes[0]
}

pub fn meta_of(m: MetaId) -> Meta {
    let mut meta = Meta::new();
    match m {
        0 => {}
        1 => {
            meta.insert("m".to_string(), b"A".to_vec());
        }
        2 => {
            meta.insert("m".to_string(), b"B".to_vec());
        }
        3 => {
            meta.insert("other".to_string(), Vec::<u8>::new());
        }
        n => {
            meta.insert("m".to_string(), vec![n; n as usize]);
        }
    }
    meta
}

pub fn meta_id(meta: &Meta) -> MetaId {
    for m in 0..=8u8 {
        if &meta_of(m) == meta {
            return m;
        }
    }
    255
}

pub fn meta_serialized_len(m: MetaId) -> u64 {
    bincode::serialized_size(&meta_of_map(m)).unwrap()
}

fn meta_of_map(m: MetaId) -> std::collections::HashMap<String, Vec<u8>> {
    let mut h = std::collections::HashMap::new();
    match m {
        0 => {}
        1 => {
            h.insert("m".to_string(), b"A".to_vec());
        }
        2 => {
            h.insert("m".to_string(), b"B".to_vec());
        }
        3 => {
            h.insert("other".to_string(), Vec::new());
        }
        n => {
            h.insert("m".to_string(), vec![n; n as usize]);
        }
    }
    h
}

/// Value bytes for the write with label `label` and length `size`: the label, a '|', then a
/// label-dependent pattern. Labels are unique per operation instance.
pub fn value_bytes(label: &str, size: usize) -> Vec<u8> {
    let mut v = Vec::with_capacity(size);
    v.extend_from_slice(label.as_bytes());
    v.push(b'|');
    let mut x: u32 = label.bytes().fold(0x9e37_79b9u32, |a, b| a.rotate_left(5) ^ b as u32);
    while v.len() < size {
        x = x.wrapping_mul(1_664_525).wrapping_add(1_013_904_223);
        v.push((x >> 24) as u8);
    }
    v.truncate(size);
    v
}

pub const CRC32C: crc::Crc<u32> = crc::Crc::<u32>::new(&crc::CRC_32_ISCSI);

/// Compact identification of a value: label part, length and CRC of all bytes.
pub fn value_tag(bytes: &[u8]) -> String {
    let end = bytes.iter().position(|b| *b == b'|').unwrap_or(bytes.len().min(16));
    format!(
        "{}:{}:{:08x}",
        String::from_utf8_lossy(&bytes[..end]),
        bytes.len(),
        CRC32C.checksum(bytes)
    )
}

pub fn record_disk_len(key_len: usize, meta: MetaId, data_len: u64) -> u64 {
    57 + key_len as u64 + meta_serialized_len(meta) + data_len
}

#[derive(Debug, Clone, PartialEq, Eq, Hash, serde::Serialize, serde::Deserialize)]
pub struct KeyObs {
    pub read: RR,
    pub contains: RR,
    pub all_wdm: Result<Vec<ListEntry>, String>,
    pub all: Result<Vec<ListEntry>, String>,
    pub with: Vec<(MetaId, RR)>,
    pub check_filters: Option<bool>,
    pub check_filter_maybe: bool,
    /// answer of the storage-wide merged filter (`BloomProvider::get_filter`), None if unknown
    pub merged_filter_maybe: Option<bool>,
}

#[derive(Debug, Clone, PartialEq, Eq, Hash, serde::Serialize, serde::Deserialize)]
pub struct Obs {
    pub keys: BTreeMap<KeyId, KeyObs>,
    pub records_count: usize,
    pub detailed: Vec<(usize, usize)>,
    pub in_active: Option<usize>,
    pub blobs_count: usize,
    pub next_blob_id: usize,
    pub corrupted: usize,
    pub disk_used: u64,
    pub has_active: bool,
}

#[derive(Debug, Clone, PartialEq, Eq, Hash, serde::Serialize, serde::Deserialize)]
pub enum Outcome {
    /// unit-returning call
    Done,
    Res(Res, String),
    Count(Result<u64, String>),
}

static DIR_SEQ: AtomicU64 = AtomicU64::new(0);

pub fn scratch_root() -> PathBuf {
    let base = if Path::new("/dev/shm").is_dir() { "/dev/shm" } else { "/var/tmp" };
    PathBuf::from(format!("{base}/pearl-mc-{}", std::process::id()))
}

pub fn fresh_dir() -> PathBuf {
    let d = scratch_root().join(format!("d{}", DIR_SEQ.fetch_add(1, Ordering::Relaxed)));
    let _ = std::fs::remove_dir_all(&d);
    std::fs::create_dir_all(&d).expect("scratch dir");
    d
}

pub struct World<K: HKey> {
    pub dir: PathBuf,
    pub cfg: WCfg,
    pub storage: Option<Storage<K>>,
    /// number of operations applied so far (labels values)
    pub op_seq: u64,
    pub label_prefix: String,
    /// blob snapshot taken by the last restart op between close (+ harness damage) and init
    pub restart_snapshot: Option<BTreeMap<String, Vec<u8>>>,
    pub snapshot_restarts: bool,
}

pub fn builder(dir: &Path, cfg: &WCfg) -> Builder {
    let mut b = Builder::new()
        .work_dir(dir)
        .blob_file_name_prefix(cfg.prefix)
        .max_blob_size(cfg.max_blob_size)
        .max_data_in_blob(cfg.max_data_in_blob)
        .set_bloom_filter_group_size(cfg.group_size)
        .set_validate_data_during_index_regen(cfg.validate_data)
        .verif_debounce_interval_ms(cfg.debounce_ms)
        .set_deferred_index_dump_times(Duration::from_secs(60), Duration::from_secs(180));
    if cfg.allow_duplicates {
        b = b.allow_duplicates();
    }
    if cfg.ignore_corrupted {
        b = b.ignore_corrupted();
    }
    if let Some(d) = cfg.max_dirty {
        b = b.set_max_dirty_bytes_before_sync(d);
    }
    match cfg.bloom {
        BloomCfg::None => {}
        BloomCfg::Default => {
            // the default configuration scaled to 1000 elements (62k bits instead of 8M)
            let mut c = BloomConfig::default();
            c.elements = 1000;
            b = b.set_filter_config(c);
        }
        BloomCfg::Bits(n) => {
            // elements / rate chosen so that the filter has exactly n bits (23 <= n <= 500k)
            let mut c = BloomConfig::default();
            c.elements = 8;
            c.preferred_false_positive_rate = 1e-9;
            c.max_buf_bits_count = n;
            b = b.set_filter_config(c);
        }
        BloomCfg::BitsK(n, k) => {
            let mut c = BloomConfig::default();
            c.elements = 8;
            c.preferred_false_positive_rate = 1e-9;
            c.max_buf_bits_count = n;
            c.hashers_count = k;
            b = b.set_filter_config(c);
        }
    }
    b
}

fn rr_of(r: anyhow::Result<ReadResult<Bytes>>) -> RR {
    match r {
        Ok(ReadResult::Found(b)) => RR::Found { ts: 0, val: value_tag(&b) },
        Ok(ReadResult::Deleted(ts)) => RR::Deleted(ts.into()),
        Ok(ReadResult::NotFound) => RR::NotFound,
        Err(e) => RR::Err(format!("{e:#}")),
    }
}

impl<K: HKey> World<K> {
    pub fn key_len() -> usize {
        K::LEN as usize
    }

    /// Builds a storage on `dir` and initialises it (eagerly or lazily).
    pub async fn open(dir: PathBuf, cfg: WCfg, lazy: bool) -> anyhow::Result<Self> {
        let mut w = Self {
            dir,
            cfg,
            storage: None,
            op_seq: 0,
            label_prefix: String::new(),
            restart_snapshot: None,
            snapshot_restarts: false,
        };
        w.init(lazy).await?;
        Ok(w)
    }

    pub async fn init(&mut self, lazy: bool) -> anyhow::Result<()> {
        let mut s: Storage<K> = builder(&self.dir, &self.cfg).build()?;
        {
            let _ext = pearl::verif::external_section();
            if lazy {
                s.init_lazy().await?;
            } else {
                s.init().await?;
            }
        }
        self.storage = Some(s);
        Ok(())
    }

    pub fn s(&self) -> &Storage<K> {
        self.storage.as_ref().expect("storage open")
    }

    pub async fn close(&mut self) -> anyhow::Result<()> {
        match self.storage.take() {
            Some(s) => s.close().await,
            None => Ok(()),
        }
    }

    /// Label and bytes of the value the next write will use.
    pub fn next_value(&self, k: KeyId, ts: u64, size: u32) -> Vec<u8> {
        value_bytes(&format!("{}w{}k{}t{}", self.label_prefix, self.op_seq, k, ts), size as usize)
    }

    pub async fn apply(&mut self, op: Op) -> Outcome {
        let out = self.apply_inner(op).await;
        self.op_seq += 1;
        out
    }

    async fn apply_inner(&mut self, op: Op) -> Outcome {
        fn res(r: anyhow::Result<()>) -> Outcome {
            match r {
                Ok(()) => Outcome::Res(Res::Ok, String::new()),
                Err(e) => Outcome::Res(Res::Err, format!("{e:#}")),
            }
        }
        match op {
            Op::Write { k, ts, meta, size } => {
                let val = Bytes::from(self.next_value(k, ts, size));
                let key: K = make_key(k);
                let ts = BlobRecordTimestamp::new(ts);
                let r = match meta {
                    None => self.s().write(&key, val, ts).await,
                    Some(m) => self.s().write_with(&key, val, ts, meta_of(m)).await,
                };
                res(r)
            }
            Op::Delete { k, ts, oip, meta } => {
                let key: K = make_key(k);
                let ts = BlobRecordTimestamp::new(ts);
                let r = if meta == 0 {
                    self.s().delete(&key, ts, oip).await
                } else {
                    self.s().delete_with(&key, ts, meta_of(meta), oip).await
                };
                Outcome::Count(r.map_err(|e| format!("{e:#}")))
            }
            Op::Rot => {
                self.s().force_update_active_blob(|_| true).await;
                Outcome::Done
            }
            Op::ForceNever => {
                self.s().force_update_active_blob(|_| false).await;
                Outcome::Done
            }
            Op::TryClose => res(self.s().try_close_active_blob().await),
            Op::TryCreate => res(self.s().try_create_active_blob().await),
            Op::TryRestore => res(self.s().try_restore_active_blob().await),
            Op::CloseBg => {
                self.s().close_active_blob_in_background().await;
                Outcome::Done
            }
            Op::CreateBg => {
                self.s().create_active_blob_in_background().await;
                Outcome::Done
            }
            Op::RestoreBg => {
                self.s().restore_active_blob_in_background().await;
                Outcome::Done
            }
            Op::FreeExcess => {
                self.s().free_excess_resources().await;
                Outcome::Done
            }
            Op::Offload { level } => {
                let s = self.storage.as_mut().expect("storage open");
                s.offload_buffer(usize::MAX, level).await;
                Outcome::Done
            }
            Op::Fsync => match self.s().fsyncdata().await {
                Ok(()) => Outcome::Res(Res::Ok, String::new()),
                Err(e) => Outcome::Res(Res::Err, format!("{e}")),
            },
            Op::Tick => {
                crate::ctl::with_ctl(|c| c.request_clock(Duration::from_secs(200)));
                Outcome::Done
            }
            Op::TickShort => {
                crate::ctl::with_ctl(|c| c.request_clock(Duration::from_secs(45)));
                Outcome::Done
            }
            Op::Rst | Op::RstLazy => {
                if let Err(e) = self.close().await {
                    return Outcome::Res(Res::Err, format!("close: {e:#}"));
                }
                res(self.init(op == Op::RstLazy).await)
            }
            Op::RstOtherHashers => {
                if let Err(e) = self.close().await {
                    return Outcome::Res(Res::Err, format!("close: {e:#}"));
                }
                self.cfg.bloom = match self.cfg.bloom {
                    BloomCfg::Bits(n) => BloomCfg::BitsK(n, 1),
                    BloomCfg::BitsK(n, 1) => BloomCfg::BitsK(n, 3),
                    BloomCfg::BitsK(n, _) => BloomCfg::Bits(n),
                    other => other,
                };
                res(self.init(false).await)
            }
            Op::KillRst | Op::KillRstLazy => {
                drop(self.storage.take());
                // the worker ends when its channel closes; files are released with it
                crate::ctl::quiesce().await;
                if self.snapshot_restarts {
                    self.restart_snapshot = Some(crate::tap::snapshot_blobs(&self.dir));
                }
                res(self.init(op == Op::KillRstLazy).await)
            }
            Op::DamageRst | Op::DamageRstLazy => {
                if let Err(e) = self.close().await {
                    return Outcome::Res(Res::Err, format!("close: {e:#}"));
                }
                crate::blobfile::damage_highest_blob(&self.dir, Self::key_len());
                if self.snapshot_restarts {
                    self.restart_snapshot = Some(crate::tap::snapshot_blobs(&self.dir));
                }
                res(self.init(op == Op::DamageRstLazy).await)
            }
        }
    }

    async fn entries_to_list(entries: anyhow::Result<Vec<pearl::Entry>>) -> Result<Vec<ListEntry>, String> {
        let entries = entries.map_err(|e| format!("{e:#}"))?;
        let mut out = Vec::new();
        for e in entries {
            let ts: u64 = e.timestamp().into();
            let del = e.is_deleted();
            let rec = e.load().await.map_err(|e| format!("load: {e:#}"))?;
            let meta = meta_id(rec.meta());
            let data = rec.into_data();
            out.push(ListEntry {
                ts,
                del,
                meta,
                val: if del && data.is_empty() { String::new() } else { value_tag(&data) },
            });
        }
        Ok(out)
    }

    pub async fn observe_key(&self, k: KeyId, metas: &[MetaId]) -> KeyObs {
        let s = self.s();
        let key: K = make_key(k);
        let read = rr_of(s.read(&key).await);
        let contains = match s.contains(&key).await {
            Ok(ReadResult::Found(ts)) => RR::Found { ts: ts.into(), val: String::new() },
            Ok(ReadResult::Deleted(ts)) => RR::Deleted(ts.into()),
            Ok(ReadResult::NotFound) => RR::NotFound,
            Err(e) => RR::Err(format!("{e:#}")),
        };
        let all_wdm = Self::entries_to_list(s.read_all_with_deletion_marker(&key).await).await;
        let all = Self::entries_to_list(s.read_all(&key).await).await;
        let mut with = Vec::new();
        for m in metas {
            with.push((*m, rr_of(s.read_with(&key, &meta_of(*m)).await)));
        }
        let check_filters = s.check_filters(&key).await;
        let check_filter_maybe = s.check_filter(&key).await == pearl::FilterResult::NeedAdditionalCheck;
        let merged_filter_maybe = {
            use pearl::filter::FilterTrait;
            s.get_filter().await.map(|f| f.contains_fast(&key) == pearl::FilterResult::NeedAdditionalCheck)
        };
        KeyObs {
            read,
            contains,
            all_wdm,
            all,
            with,
            check_filters,
            check_filter_maybe,
            merged_filter_maybe,
        }
    }

    pub async fn observe(&self, keys: &[KeyId], metas: &[MetaId]) -> Obs {
        let s = self.s();
        let mut ko = BTreeMap::new();
        for k in keys {
            ko.insert(*k, self.observe_key(*k, metas).await);
        }
        Obs {
            keys: ko,
            records_count: s.records_count().await,
            detailed: s.records_count_detailed().await,
            in_active: s.records_count_in_active_blob().await,
            blobs_count: s.blobs_count().await,
            next_blob_id: s.next_blob_id(),
            corrupted: s.corrupted_blobs_count(),
            disk_used: s.disk_used().await,
            has_active: s.has_active_blob().await,
        }
    }
}

/// (name, length) of every regular file in `dir` (not recursive), sorted.
pub fn dir_listing(dir: &Path) -> Vec<(String, u64)> {
    let mut v = Vec::new();
    if let Ok(rd) = std::fs::read_dir(dir) {
        for e in rd.flatten() {
            if let Ok(md) = e.metadata() {
                if md.is_file() {
                    v.push((e.file_name().to_string_lossy().to_string(), md.len()));
                }
            }
        }
    }
    v.sort();
    v
}

pub fn remove_dir(dir: &Path) {
    let _ = std::fs::remove_dir_all(dir);
}
