// Shared between the corpus generator (built against the pinned tree) and the compat engine of
// the harness (built against the current tree). Uses pearl's public API only.

use pearl::{ArrayKey, BlobRecordTimestamp, BloomConfig, Builder, Meta, ReadResult, Storage};
use serde_json::{json, Value};

pub const CRC: crc::Crc<u32> = crc::Crc::<u32>::new(&crc::CRC_32_ISCSI);

#[derive(Debug, Clone, Copy, PartialEq, Eq)]
pub enum Bloom {
    Off,
    /// exactly n bits
    Bits(usize),
    /// default config scaled to 1000 elements
    Scaled,
    /// exactly n bits probed with k hash functions
    BitsK(usize, usize),
}

pub fn bloom_config(b: Bloom) -> Option<BloomConfig> {
    match b {
        Bloom::Off => None,
        Bloom::Bits(n) => {
            let mut c = BloomConfig::default();
            c.elements = 8;
            c.preferred_false_positive_rate = 1e-9;
            c.max_buf_bits_count = n;
            Some(c)
        }
        Bloom::Scaled => {
            let mut c = BloomConfig::default();
            c.elements = 1000;
            Some(c)
        }
        Bloom::BitsK(n, k) => {
            let mut c = BloomConfig::default();
            c.elements = 8;
            c.preferred_false_positive_rate = 1e-9;
            c.max_buf_bits_count = n;
            c.hashers_count = k;
            Some(c)
        }
    }
}

pub fn builder(dir: &std::path::Path, bloom: Bloom) -> Builder {
    let mut b = Builder::new()
        .work_dir(dir)
        .blob_file_name_prefix("c")
        .max_blob_size(1_000_000_000)
        .max_data_in_blob(1_000_000)
        .allow_duplicates();
    if let Some(c) = bloom_config(bloom) {
        b = b.set_filter_config(c);
    }
    b
}

pub fn key_bytes(i: u32, len: usize) -> Vec<u8> {
    // big-endian counter in the first bytes so that key order == counter order, filler after
    let mut v = vec![(i as u8) ^ 0xa5; len];
    let be = i.to_be_bytes();
    for (j, b) in be.iter().enumerate() {
        if len >= 4 {
            v[j] = *b;
        } else if j >= 4 - len {
            v[j - (4 - len)] = *b;
        }
    }
    v
}

pub fn meta_of(tag: u8) -> Meta {
    let mut m = Meta::new();
    match tag {
        0 => {}
        1 => {
            m.insert("m".to_string(), b"A".to_vec());
        }
        2 => {
            m.insert("m".to_string(), b"B".to_vec());
        }
        _ => {
            m.insert("version".to_string(), vec![tag; 3]);
        }
    }
    m
}

fn meta_tag(m: &Meta) -> i64 {
    for t in 0..=8u8 {
        if &meta_of(t) == m {
            return t as i64;
        }
    }
    -1
}

fn data_id(b: &[u8]) -> Value {
    json!({"len": b.len(), "crc": CRC.checksum(b), "head": String::from_utf8_lossy(&b[..b.len().min(12)])})
}

async fn list<const N: usize>(entries: anyhow::Result<Vec<pearl::Entry>>) -> Value {
    match entries {
        Err(e) => json!({"err": format!("{e:#}")}),
        Ok(es) => {
            let mut out = Vec::new();
            for e in es {
                let ts: u64 = e.timestamp().into();
                let del = e.is_deleted();
                match e.load().await {
                    Ok(r) => {
                        let mt = meta_tag(r.meta());
                        out.push(json!({"ts": ts, "del": del, "meta": mt, "data": data_id(&r.into_data())}))
                    }
                    Err(e) => out.push(json!({"ts": ts, "del": del, "load_err": format!("{e:#}")})),
                }
            }
            Value::Array(out)
        }
    }
}

fn rr(r: anyhow::Result<ReadResult<bytes::Bytes>>) -> Value {
    match r {
        Ok(ReadResult::Found(b)) => json!({"found": data_id(&b)}),
        Ok(ReadResult::Deleted(ts)) => {
            let t: u64 = ts.into();
            json!({"deleted": t})
        }
        Ok(ReadResult::NotFound) => json!("notfound"),
        Err(e) => json!({"err": format!("{e:#}")}),
    }
}

/// Every query for every key in `keys`, plus the counts.
pub async fn observe<const N: usize>(s: &Storage<ArrayKey<N>>, keys: &[u32]) -> Value {
    let mut per_key = serde_json::Map::new();
    for i in keys {
        let kb = key_bytes(*i, N);
        let key: ArrayKey<N> = kb.clone().into();
        let contains = match s.contains(&key).await {
            Ok(ReadResult::Found(ts)) => {
                let t: u64 = ts.into();
                json!({"found": t})
            }
            Ok(ReadResult::Deleted(ts)) => {
                let t: u64 = ts.into();
                json!({"deleted": t})
            }
            Ok(ReadResult::NotFound) => json!("notfound"),
            Err(e) => json!({"err": format!("{e:#}")}),
        };
        let mut with = serde_json::Map::new();
        for t in [0u8, 1, 2] {
            with.insert(format!("m{t}"), rr(s.read_with(&key, &meta_of(t)).await));
        }
        per_key.insert(
            format!("{i}"),
            json!({
                "read": rr(s.read(&key).await),
                "contains": contains,
                "read_all_with_deletion_marker": list::<N>(s.read_all_with_deletion_marker(&key).await).await,
                "read_all": list::<N>(s.read_all(&key).await).await,
                "read_with": with,
                "check_filters": s.check_filters(&key).await,
            }),
        );
    }
    let mut detailed = s.records_count_detailed().await;
    // the label of the active entry is not part of the format contract
    if let Some(last) = detailed.last_mut() {
        last.0 = usize::MAX;
    }
    json!({
        "keys": per_key,
        "records_count": s.records_count().await,
        "records_count_detailed": detailed.iter().map(|(a, b)| json!([if *a == usize::MAX { -1 } else { *a as i64 }, b])).collect::<Vec<_>>(),
        "blobs_count": s.blobs_count().await,
        "next_blob_id": s.next_blob_id(),
    })
}

pub fn ts(t: u64) -> BlobRecordTimestamp {
    BlobRecordTimestamp::new(t)
}
