pub mod seq;
pub mod syncmon;
pub mod restart;
pub mod sched;
pub mod fault;
pub mod crash;
