//! Reference model of a pearl storage: deliberately boring Rust, written from the property
//! statements (C01, C02, C03, C04, C13, C15), not from pearl's code.

use std::collections::{BTreeMap, BTreeSet};

pub type KeyId = u8;
pub type MetaId = u8; // 0 = no metadata / empty map, 1.. = distinct non-empty maps

#[derive(Debug, Clone, PartialEq, Eq, Hash, PartialOrd, Ord, serde::Serialize, serde::Deserialize)]
pub struct RecM {
    pub key: KeyId,
    pub ts: u64,
    pub del: bool,
    pub meta: MetaId,
    /// value tag (unique per write operation instance); empty for markers
    pub val: String,
    /// bytes this record occupies in the blob file
    pub disk_len: u64,
}

#[derive(Debug, Clone, PartialEq, Eq, Hash, PartialOrd, Ord, serde::Serialize, serde::Deserialize)]
pub struct BlobM {
    pub id: usize,
    pub records: Vec<RecM>,
    /// index state: true = OnDisk (closed for pushes), false = in memory
    pub index_on_disk: bool,
    /// an index file exists and describes this many records (stale if smaller than records.len())
    pub index_file: Option<usize>,
    pub bloom_offloaded: bool,
    /// the blob object was built from its file at start-up (not created in this session): its
    /// filters were deserialized, its file handle reopened -- implementation state that no
    /// query shows but that later behaviour may depend on
    pub reopened: bool,
}

impl BlobM {
    fn new(id: usize) -> Self {
        Self {
            id,
            records: Vec::new(),
            index_on_disk: false,
            index_file: None,
            bloom_offloaded: false,
            reopened: false,
        }
    }

    /// position of the blob-local top-ranked record of `k`
    fn local_head(&self, k: KeyId) -> Option<&RecM> {
        self.records
            .iter()
            .enumerate()
            .filter(|(_, r)| r.key == k)
            .max_by_key(|(i, r)| (r.ts, *i))
            .map(|(_, r)| r)
    }

    fn dump(&mut self) {
        if !self.index_on_disk && !self.records.is_empty() {
            self.index_on_disk = true;
            self.index_file = Some(self.records.len());
        }
    }
}

#[derive(Debug, Clone, Copy, PartialEq, Eq, Hash, PartialOrd, Ord, serde::Serialize, serde::Deserialize)]
pub enum Res {
    Ok,
    Err,
}

#[derive(Debug, Clone, PartialEq, Eq, Hash, PartialOrd, Ord, serde::Serialize, serde::Deserialize)]
pub enum RR {
    Found { ts: u64, val: String },
    Deleted(u64),
    NotFound,
    Err(String),
}

#[derive(Debug, Clone, PartialEq, Eq, Hash, PartialOrd, Ord, serde::Serialize, serde::Deserialize)]
pub struct ListEntry {
    pub ts: u64,
    pub del: bool,
    pub meta: MetaId,
    pub val: String,
}

#[derive(Debug, Clone, PartialEq, Eq, Hash, serde::Serialize, serde::Deserialize)]
pub struct RefStore {
    /// closed blobs in slot order; `None` = slot emptied by a restore
    pub closed: Vec<Option<BlobM>>,
    pub active: Option<BlobM>,
    pub next_id: usize,
    pub ever_ids: BTreeSet<usize>,
    /// names of quarantined blobs (ids)
    pub corrupted: Vec<usize>,
    pub allow_duplicates: bool,
    pub blob_header_len: u64,
    /// record-count limit of a blob (rotation is requested by the write that reaches it)
    pub max_data: u64,
    /// size limit of a blob file in bytes (the other rotation trigger)
    pub max_size: u64,
    /// virtual time in seconds (advanced by the Tick operations only)
    pub now: u64,
    /// a deferred index dump is registered with the worker: (first event, last event)
    pub deferred: Option<(u64, u64)>,
    /// next time the worker looks at the deferred dump
    pub deadline: Option<u64>,
}

pub const DEFER_MIN: u64 = 60;
pub const DEFER_MAX: u64 = 180;

impl RefStore {
    pub fn fresh(allow_duplicates: bool) -> Self {
        let mut s = Self {
            closed: Vec::new(),
            active: None,
            next_id: 0,
            ever_ids: BTreeSet::new(),
            corrupted: Vec::new(),
            allow_duplicates,
            blob_header_len: 20,
            max_data: u64::MAX,
            max_size: u64::MAX,
            now: 0,
            deferred: None,
            deadline: None,
        };
        s.create_active();
        s
    }

    fn create_active(&mut self) {
        let id = self.next_id;
        self.next_id += 1;
        self.ever_ids.insert(id);
        self.active = Some(BlobM::new(id));
    }

    /// side effect of a write / delete that failed afterwards: the active blob exists
    pub fn ensure_active(&mut self) {
        if self.active.is_none() {
            self.create_active();
        }
    }

    pub fn blobs(&self) -> impl Iterator<Item = &BlobM> {
        self.closed.iter().flatten().chain(self.active.iter())
    }

    fn blobs_mut(&mut self) -> impl Iterator<Item = &mut BlobM> {
        self.closed.iter_mut().flatten().chain(self.active.iter_mut())
    }

    /// all records of `k` in rank order: ts desc, blob id desc, append position desc
    pub fn ranked(&self, k: KeyId) -> Vec<&RecM> {
        let mut v: Vec<(u64, usize, usize, &RecM)> = Vec::new();
        for b in self.blobs() {
            for (i, r) in b.records.iter().enumerate() {
                if r.key == k {
                    v.push((r.ts, b.id, i, r));
                }
            }
        }
        v.sort_by(|a, b| (b.0, b.1, b.2).cmp(&(a.0, a.1, a.2)));
        v.into_iter().map(|x| x.3).collect()
    }

    pub fn read(&self, k: KeyId) -> RR {
        match self.ranked(k).first() {
            None => RR::NotFound,
            Some(r) if r.del => RR::Deleted(r.ts),
            Some(r) => RR::Found {
                ts: r.ts,
                val: r.val.clone(),
            },
        }
    }

    pub fn read_all_with_deletion_marker(&self, k: KeyId) -> Vec<ListEntry> {
        let mut out = Vec::new();
        for r in self.ranked(k) {
            out.push(ListEntry {
                ts: r.ts,
                del: r.del,
                meta: r.meta,
                val: r.val.clone(),
            });
            if r.del {
                break;
            }
        }
        out
    }

    pub fn read_all(&self, k: KeyId) -> Vec<ListEntry> {
        let mut v = self.read_all_with_deletion_marker(k);
        if v.last().map_or(false, |e| e.del) {
            v.pop();
        }
        v
    }

    pub fn read_with(&self, k: KeyId, m: MetaId) -> RR {
        let list = self.read_all_with_deletion_marker(k);
        for e in &list {
            if !e.del && e.meta == m {
                return RR::Found {
                    ts: e.ts,
                    val: e.val.clone(),
                };
            }
        }
        match list.last() {
            Some(e) if e.del => RR::Deleted(e.ts),
            _ => RR::NotFound,
        }
    }

    /// `meta`: None = plain `write`, Some(m) = `write_with`. Returns true if a record was stored.
    pub fn write(&mut self, k: KeyId, ts: u64, meta: Option<MetaId>, val: String, disk_len: u64) -> bool {
        if self.active.is_none() {
            self.create_active();
        }
        if !self.allow_duplicates {
            let live = match meta {
                None => matches!(self.read(k), RR::Found { .. }),
                Some(m) => matches!(self.read_with(k, m), RR::Found { .. }),
            };
            if live {
                return false;
            }
        }
        self.active.as_mut().unwrap().records.push(RecM {
            key: k,
            ts,
            del: false,
            meta: meta.unwrap_or(0),
            val,
            disk_len,
        });
        // overflow: the worker switches to a new blob
        let full = {
            let a = self.active.as_ref().unwrap();
            a.records.len() as u64 >= self.max_data || self.blob_file_len(a) >= self.max_size
        };
        if full {
            let a = self.active.take().unwrap();
            self.closed.push(Some(a));
            self.create_active();
            // the dump joins a registered deferred dump, otherwise it runs at once
            if self.deferred.is_some() {
                self.defer();
            } else {
                self.dump_closed();
            }
        }
        true
    }

    /// an event that postpones / registers the deferred index dump
    fn defer(&mut self) {
        let d = match self.deferred {
            Some((first, _)) => (first, self.now),
            None => (self.now, self.now),
        };
        self.deferred = Some(d);
        let next = (d.0 + DEFER_MAX).min(d.1 + DEFER_MIN);
        self.deadline = Some(self.deadline.map_or(next, |x| x.min(next)));
    }

    /// the paused clock advances by `dt` seconds
    pub fn tick(&mut self, dt: u64) {
        self.now += dt;
        while let Some(dl) = self.deadline {
            if dl >= self.now {
                break;
            }
            self.deadline = None;
            if let Some((first, last)) = self.deferred {
                if self.now - last >= DEFER_MIN || self.now - first >= DEFER_MAX {
                    self.deferred = None;
                    self.dump_closed();
                } else {
                    self.deadline = Some((first + DEFER_MAX).min(last + DEFER_MIN));
                }
            }
        }
    }

    /// the highest-id blob is damaged on disk so that the next start quarantines it
    pub fn quarantine_highest(&mut self) {
        let max = self.blobs().map(|b| b.id).max();
        if let Some(id) = max {
            if self.active.as_ref().map_or(false, |a| a.id == id) {
                self.active = None;
            } else {
                for s in self.closed.iter_mut() {
                    if s.as_ref().map_or(false, |b| b.id == id) {
                        *s = None;
                    }
                }
            }
            self.corrupted.push(id);
        }
    }

    /// Returns the number of blobs that received a marker.
    pub fn delete(&mut self, k: KeyId, ts: u64, oip: bool, meta: MetaId, disk_len: u64) -> u64 {
        let mut n = 0;
        if self.active.is_none() && !oip {
            self.create_active();
        }
        let marker = RecM {
            key: k,
            ts,
            del: true,
            meta,
            val: String::new(),
            disk_len,
        };
        if let Some(a) = self.active.as_mut() {
            let live = a.local_head(k).map_or(false, |r| !r.del);
            if !oip || live {
                a.records.push(marker.clone());
                n += 1;
            }
        }
        let mut in_closed = false;
        for b in self.closed.iter_mut().flatten() {
            let live = b.local_head(k).map_or(false, |r| !r.del);
            if live {
                // the index is brought back into memory to take the marker
                b.index_on_disk = false;
                b.bloom_offloaded = false;
                b.records.push(marker.clone());
                n += 1;
                in_closed = true;
            }
        }
        if in_closed {
            self.defer();
        }
        n
    }

    /// dump every closed blob whose index is in memory
    pub fn dump_closed(&mut self) {
        for b in self.closed.iter_mut().flatten() {
            b.dump();
        }
    }

    pub fn try_close(&mut self) -> Res {
        match self.active.take() {
            None => Res::Err,
            Some(a) => {
                self.closed.push(Some(a));
                self.dump_closed();
                Res::Ok
            }
        }
    }

    pub fn try_create(&mut self) -> Res {
        if self.active.is_some() {
            return Res::Err;
        }
        self.create_active();
        Res::Ok
    }

    pub fn try_restore(&mut self) -> Res {
        if self.active.is_some() {
            return Res::Err;
        }
        let pos = self.closed.iter().rposition(|s| s.is_some());
        match pos {
            None => Res::Err,
            Some(p) => {
                self.active = self.closed[p].take();
                Res::Ok
            }
        }
    }

    /// `force_update_active_blob` with a predicate answering `pred`
    pub fn force_update(&mut self, pred: bool) {
        if pred {
            if let Some(a) = self.active.take() {
                self.closed.push(Some(a));
            }
            self.create_active();
        }
        self.dump_closed();
    }

    pub fn offload(&mut self) {
        for b in self.closed.iter_mut().flatten() {
            if b.index_on_disk {
                b.bloom_offloaded = true;
            }
        }
    }

    /// close + build + init (`lazy`: init_lazy)
    pub fn restart(&mut self, lazy: bool) {
        let had_files = self.blobs().count() > 0;
        self.restart_ext(lazy, had_files)
    }

    /// `had_files`: the directory held blob files when the start began (they may all have been
    /// quarantined by it). A lazy start creates no active blob then; a start on a directory
    /// without any blob file always does.
    pub fn restart_ext(&mut self, lazy: bool, had_files: bool) {
        let mut all: Vec<BlobM> = self.blobs().cloned().collect();
        all.sort_by_key(|b| b.id);
        for b in all.iter_mut() {
            // close dumps the active blob; start-up dumps everything but the new active one
            b.dump();
            b.bloom_offloaded = false;
            b.reopened = true;
        }
        self.next_id = self.ever_ids.iter().next_back().map_or(0, |m| m + 1);
        self.active = None;
        self.deferred = None;
        self.deadline = None;
        if all.is_empty() && !(lazy && had_files) {
            self.closed = Vec::new();
            self.create_active();
            return;
        }
        if !lazy {
            if let Some(mut a) = all.pop() {
                a.index_on_disk = false;
                self.active = Some(a);
            }
        }
        self.closed = all.into_iter().map(Some).collect();
    }

    // ---- accounting (C15) ----

    pub fn records_count(&self) -> usize {
        self.blobs().map(|b| b.records.len()).sum()
    }

    /// (blob id, count) for closed blobs in list order, then the active blob
    pub fn records_count_detailed(&self) -> Vec<(usize, usize)> {
        self.blobs().map(|b| (b.id, b.records.len())).collect()
    }

    pub fn records_count_in_active(&self) -> Option<usize> {
        self.active.as_ref().map(|a| a.records.len())
    }

    pub fn blobs_count(&self) -> usize {
        self.blobs().count()
    }

    pub fn blob_file_len(&self, b: &BlobM) -> u64 {
        self.blob_header_len + b.records.iter().map(|r| r.disk_len).sum::<u64>()
    }

    pub fn stored_keys(&self) -> BTreeSet<KeyId> {
        self.blobs().flat_map(|b| b.records.iter().map(|r| r.key)).collect()
    }

    /// keys with at least one record per blob id (for filter checks)
    pub fn keys_by_blob(&self) -> BTreeMap<usize, BTreeSet<KeyId>> {
        self.blobs()
            .map(|b| (b.id, b.records.iter().map(|r| r.key).collect()))
            .collect()
    }

    pub fn any_index_on_disk_mut(&mut self) -> impl Iterator<Item = &mut BlobM> {
        self.blobs_mut()
    }
}
