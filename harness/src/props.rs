//! Property registry: which engine instances decide which property, at which tier.

use std::time::Instant;

use serde_json::json;

use crate::ctl::IoMode;
use crate::engines::seq::{self, Checks, SeqSpec};
use crate::evidence::{self, Report};
use crate::world::{BloomCfg, Op};

pub struct Args {
    pub prop: String,
    pub tier: String,
    pub seed: i64,
    pub threads: usize,
}

fn parse(args: &[String]) -> Args {
    let mut a = Args {
        prop: String::new(),
        tier: std::env::var("VERIF_TIER").unwrap_or_else(|_| "quick".into()),
        seed: std::env::var("VERIF_SEED").ok().and_then(|s| s.parse().ok()).unwrap_or(0),
        threads: std::thread::available_parallelism().map_or(8, |n| n.get()),
    };
    let mut i = 0;
    while i < args.len() {
        match args[i].as_str() {
            "--tier" => {
                a.tier = args[i + 1].clone();
                i += 1;
            }
            "--threads" => {
                a.threads = args[i + 1].parse().unwrap();
                i += 1;
            }
            s if a.prop.is_empty() => a.prop = s.to_string(),
            s => {
                eprintln!("unexpected argument {s}");
                std::process::exit(2)
            }
        }
        i += 1;
    }
    a
}

pub fn check_cmd(args: &[String]) -> i32 {
    let a = parse(args);
    let t0 = Instant::now();
    let mut rep = match a.prop.as_str() {
        "C01" => c01(&a),
        p => {
            eprintln!("no check for {p}");
            return 2;
        }
    };
    rep.wall_s = t0.elapsed().as_secs_f64();
    rep.write_and_exit_code()
}

pub fn selftest() -> i32 {
    let spec = SeqSpec::new("selftest", vec![], 0);
    let h = vec![Op::w(0, 1), Op::Rot, Op::d(0, 2), Op::Tick, Op::w(1, 1), Op::Rst, Op::w(0, 3)];
    let mut spec = spec;
    spec.checks = Checks { outcome: true, latest: true, history: true, accounting: true, filters: true, transparent: true, no_harm: true, alive: true, sync: false };
    for mode in [IoMode::Inplace, IoMode::Background] {
        spec.io_mode = mode;
        let r1 = seq::run_history_dyn(&spec, &h);
        let r2 = seq::run_history_dyn(&spec, &h);
        println!("mode {:?}: end {:?} outcome {:?}", mode, r1.end, r1.outcome);
        println!("  obs {:?}", r1.obs_after.as_ref().map(|o| &o.keys[&0]));
        println!("  listing {:?}", r1.listing);
        let f = seq::judge(&spec, &h, &r1);
        println!("  findings: {:#?}", f);
        assert_eq!(r1.obs_after, r2.obs_after, "nondeterministic observation");
        assert_eq!(r1.listing, r2.listing);
    }
    0
}

fn no_known(_: &SeqSpec, _: &[Op], _: &crate::oracle::Finding) -> Option<String> {
    None
}

fn seq_report(prop: &str, a: &Args, level: &str, results: Vec<seq::SeqResult>, rule: &str) -> Report {
    let mut violations = Vec::new();
    let mut states = 0;
    let mut transitions = 0;
    let mut distinct = 0;
    let mut samples = Vec::new();
    let mut per_spec = Vec::new();
    let mut machinery = Vec::new();
    let mut known = Vec::new();
    let mut exhaustive = true;
    for r in &results {
        states += r.stats.states;
        transitions += r.stats.transitions;
        distinct += r.stats.distinct_observations;
        samples.extend(r.stats.samples.iter().cloned());
        if r.stats.cap_hit {
            exhaustive = false;
        }
        if r.stats.abstraction_divergences > 0 {
            // reported, not fatal: see DESIGN 2.3
        }
        per_spec.push(json!(r.stats));
        for v in &r.violations {
            if v.findings.iter().any(|f| f.kind == "machinery") {
                machinery.push(format!("{}: {:?}", v.spec, v.findings));
                continue;
            }
            let desc = format!("[{}] {} :: {}", v.spec, v.history.join(" "), v.findings[0].detail);
            violations.push((json!({"engine": "seq", "spec": v.spec, "history": v.history, "findings": v.findings}), desc));
        }
        for (k, h) in &r.known {
            known.push((k.clone(), format!("witness {}", h.join(" "))));
        }
    }
    violations.truncate(10);
    Report {
        property: prop.into(),
        tier: a.tier.clone(),
        seed: a.seed,
        level: level.into(),
        coverage: json!({
            "states": states,
            "transitions": transitions,
            "traces_validated_against_impl": transitions,
            "evaluations": transitions,
            "distinct_nontrivial": distinct,
            "rule": rule,
            "samples": samples,
            "exhaustive": exhaustive,
            "instances": per_spec,
        }),
        assumptions: vec![
            "sequential histories under the zero-preemption default schedule; background work runs to quiescence after every operation".into(),
            "states merged when the reference model state is equal (guarded by a digest of the implementation's observable state)".into(),
        ],
        wall_s: 0.0,
        violations,
        known,
        machinery_errors: machinery,
    }
}

fn c01(a: &Args) -> Report {
    let thorough = a.tier == "thorough";
    let mut alphabet = Vec::new();
    for k in [0u8, 1] {
        for ts in [1u64, 2] {
            alphabet.push(Op::w(k, ts));
            alphabet.push(Op::d(k, ts));
        }
    }
    alphabet.extend([Op::Rot, Op::Rst, Op::RstLazy]);
    let mut specs = Vec::new();
    let mut s = SeqSpec::new("C01/placement/L4/bloom-1024", alphabet.clone(), if thorough { 6 } else { 4 });
    s.checks = Checks { outcome: true, latest: true, ..Default::default() };
    specs.push(s.clone());
    for (kl, bloom) in [(1usize, BloomCfg::Default), (33, BloomCfg::None), (8, BloomCfg::Bits(70))] {
        let mut t = s.clone();
        t.name = format!("C01/placement/L{kl}/{bloom:?}");
        t.key_len = kl;
        t.wcfg.bloom = bloom;
        t.depth = s.depth - 1;
        specs.push(t);
    }
    let results: Vec<_> = specs.iter().map(|s| seq::bfs(s, a.threads, &no_known)).collect();
    let _ = evidence::verif_root();
    seq_report("C01", a, "model_checking", results, "BFS over operation sequences; a state is the canonical reference-model state; distinct_nontrivial counts distinct query-answer vectors observed")
}
