//! Evidence files and known findings.

use std::path::{Path, PathBuf};

use serde_json::{json, Value};

/// Debugging aid: `PEARL_MC_PART=<engine>` restricts a multi-engine check to one of its parts.
pub fn part_enabled(name: &str) -> bool {
    std::env::var("PEARL_MC_PART").map_or(true, |p| p == name)
}

pub fn verif_root() -> PathBuf {
    std::env::var("VERIF_ROOT").map(PathBuf::from).unwrap_or_else(|_| PathBuf::from("/verif"))
}

#[derive(Debug, Clone)]
pub struct Report {
    pub property: String,
    pub tier: String,
    pub seed: i64,
    pub level: String,
    pub coverage: Value,
    pub assumptions: Vec<String>,
    pub wall_s: f64,
    /// (replay file content, one-line description)
    pub violations: Vec<(Value, String)>,
    /// known findings that manifested: (key, what fails)
    pub known: Vec<(String, String)>,
    pub machinery_errors: Vec<String>,
}

impl Report {
    pub fn write_and_exit_code(&self) -> i32 {
        let root = verif_root();
        let _ = std::fs::create_dir_all(root.join("evidence"));
        let _ = std::fs::create_dir_all(root.join("replays"));
        // replays of earlier runs of this property are stale
        if let Ok(rd) = std::fs::read_dir(root.join("replays")) {
            for e in rd.flatten() {
                if e.file_name().to_string_lossy().starts_with(&format!("{}-", self.property)) {
                    let _ = std::fs::remove_file(e.path());
                }
            }
        }
        let mut replay_paths = Vec::new();
        for (i, (content, desc)) in self.violations.iter().enumerate() {
            let path = root.join("replays").join(format!("{}-{}.json", self.property, i));
            let mut c = content.clone();
            if let Value::Object(o) = &mut c {
                o.insert("property".into(), json!(self.property));
                o.insert("tier".into(), json!(self.tier));
                o.insert("description".into(), json!(desc));
            }
            let _ = std::fs::write(&path, serde_json::to_string_pretty(&c).unwrap());
            replay_paths.push(path);
        }
        let ev = json!({
            "property_id": self.property,
            "tier": self.tier,
            "seed": self.seed,
            "level": self.level,
            "coverage": self.coverage,
            "assumptions": self.assumptions,
            "wall_s": self.wall_s,
            "violations": self.violations.len(),
            "known_findings_manifested": self.known.iter().map(|k| k.0.clone()).collect::<Vec<_>>(),
            "machinery_errors": self.machinery_errors,
        });
        let path = root.join("evidence").join(format!("{}.json", self.property));
        if let Ok(part) = std::env::var("PEARL_MC_PART") {
            // debugging aid: only one engine of the check was run; not evidence
            println!("PARTIAL run (PEARL_MC_PART={part}): evidence file left untouched");
        } else {
            std::fs::write(&path, serde_json::to_string_pretty(&ev).unwrap()).expect("write evidence");
        }
        for (k, what) in &self.known {
            println!("KNOWN-FINDING: property={} {} [{}]", self.property, what, k);
        }
        for ((_, desc), p) in self.violations.iter().zip(&replay_paths) {
            println!("VIOLATION property={} replay={}", self.property, p.display());
            println!("  {}", desc);
        }
        for m in &self.machinery_errors {
            println!("MACHINERY-ERROR: {m}");
        }
        if !self.violations.is_empty() {
            1
        } else if !self.machinery_errors.is_empty() {
            2
        } else {
            println!(
                "OK property={} tier={} wall={:.1}s evidence={}",
                self.property,
                self.tier,
                self.wall_s,
                path.display()
            );
            0
        }
    }
}

#[derive(Debug, Clone, serde::Deserialize)]
pub struct KnownFinding {
    pub property: String,
    pub key: String,
    pub status: String,
    #[serde(default)]
    pub what: String,
    #[serde(default)]
    pub commit: String,
}

pub fn load_known(path: &Path) -> Vec<KnownFinding> {
    #[derive(serde::Deserialize)]
    struct F {
        findings: Vec<KnownFinding>,
    }
    match std::fs::read_to_string(path) {
        Ok(s) => serde_json::from_str::<F>(&s).map(|f| f.findings).unwrap_or_else(|e| {
            eprintln!("cannot parse {}: {e}", path.display());
            std::process::exit(2)
        }),
        Err(_) => Vec::new(),
    }
}

/// Is `key` an open known finding of `property`?
pub fn is_open(known: &[KnownFinding], property: &str, key: &str) -> bool {
    known.iter().any(|k| k.property == property && k.key == key && k.status == "open")
}
