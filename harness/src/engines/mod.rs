pub mod seq;
pub mod syncmon;
