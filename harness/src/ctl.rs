//! The controller: a token-passing gate on top of a paused tokio current-thread runtime.
//!
//! Every task that matters is `tokio::spawn(Gate(fut))` (done by `pearl::verif::spawn`). A gated
//! task polls its future only while it holds the token. The driver (root future of `block_on`)
//! computes the enabled entities after each step, asks a `Policy` which one runs next, and
//! grants. tokio's primitives, wakers and join handles keep working unmodified.

use std::cell::RefCell;
use std::collections::VecDeque;
use std::future::Future;
use std::path::Path;
use std::rc::Rc;
use std::task::Waker;
use std::time::{Duration, SystemTime};

use pearl::verif::{self, Controller, IoEvent, IoOp, Label, TapAction, TaskId};

use crate::tap::{FaultPlan, IoLog};

/// `Label::User` code of the quiesce point: a task standing there is scheduled only when
/// nothing else is enabled (and, with `auto_clock`, advancing the clock wakes nothing).
pub const QUIESCE: u32 = 1;

#[derive(Debug, Clone, Copy, PartialEq, Eq, Hash, serde::Serialize, serde::Deserialize)]
pub enum IoMode {
    /// multi-thread runtime: operations up to 80 KiB run in place (scheduling point before)
    Inplace,
    /// current-thread runtime: every file operation is a detached blocking job
    Background,
}

#[derive(Debug, Clone)]
pub struct CtlConfig {
    pub io_mode: IoMode,
    /// yield at lock acquisitions
    pub lock_points: bool,
    /// yield at in-place reads
    pub read_points: bool,
    /// yield at in-place writes / syncs
    pub write_points: bool,
    /// yield before channel sends
    pub send_points: bool,
    pub channel_capacity: Option<usize>,
    /// creation time of every blob (None: real time)
    pub blob_created_at: Option<SystemTime>,
    /// at quiescence advance the paused clock by this much until nothing wakes
    pub auto_clock: Option<Duration>,
    /// DFS only: number of explicit clock-advance steps offered as a choice
    pub clock_choices: u32,
    pub clock_step: Duration,
    pub step_cap: usize,
    /// Background mode: a job that writes to a blob is split into two steps -- the closure
    /// (offset reservation; its `pwrite`s are deferred) and the application of the deferred
    /// writes followed by the delivery of the result -- so that closures of different tasks
    /// interleave the way they do on a real blocking pool.
    pub split_write_jobs: bool,
    /// directed (non-exploring) policy for the scale run: gather every client at its channel
    /// send while it holds the storage lock, then let the worker and the senders go
    pub gather_at_send: bool,
}

impl Default for CtlConfig {
    fn default() -> Self {
        Self {
            io_mode: IoMode::Inplace,
            lock_points: false,
            read_points: false,
            write_points: false,
            send_points: false,
            channel_capacity: None,
            blob_created_at: Some(SystemTime::UNIX_EPOCH + Duration::from_secs(1_000_000)),
            auto_clock: Some(Duration::from_secs(200)),
            clock_choices: 0,
            clock_step: Duration::from_secs(200),
            step_cap: 200_000,
            split_write_jobs: false,
            gather_at_send: false,
        }
    }
}

impl CtlConfig {
    /// Configuration for sequential engines: no yields inside operations, background work runs
    /// to quiescence at quiesce points.
    pub fn sequential(io_mode: IoMode) -> Self {
        Self {
            io_mode,
            // sweeps run thousands of operations inside one execution
            step_cap: usize::MAX,
            ..Default::default()
        }
    }

    /// Configuration for interleaving exploration: all points on.
    pub fn concurrent(io_mode: IoMode) -> Self {
        Self {
            io_mode,
            lock_points: true,
            read_points: true,
            write_points: true,
            send_points: true,
            auto_clock: None,
            ..Default::default()
        }
    }
}

#[derive(Debug, Clone, Copy, PartialEq, Eq)]
enum TState {
    New,
    Running,
    AtPoint(Label),
    Woken,
    Blocked,
    Done,
    Panicked,
}

struct TaskInfo {
    name: &'static str,
    state: TState,
    waker: Option<Waker>,
    external: u32,
    polled: bool,
    pending_point: Option<Label>,
}

enum JobStage {
    /// not started: the closure
    Closure(Box<dyn FnOnce() -> Box<dyn FnOnce() + Send> + Send>),
    /// closure ran with its writes deferred: apply them, then deliver the result
    Finish {
        writes: Vec<(std::fs::File, u64, Vec<u8>)>,
        deliver: Box<dyn FnOnce() + Send>,
    },
}

struct Job {
    id: usize,
    owner: Option<TaskId>,
    stage: JobStage,
    /// driver steps this job has been runnable without being run
    age: usize,
}

/// A closure handed to the blocking pool completes in bounded real time whatever the async tasks
/// do: a job that has been passed over this many driver steps is run next, without a decision
/// (otherwise a task that polls until the job's effect is visible would spin for ever under the
/// run-to-completion default policy).
const JOB_AGE_LIMIT: usize = 48;

/// A schedulable entity.
#[derive(Debug, Clone, Copy, PartialEq, Eq, Hash, serde::Serialize, serde::Deserialize)]
pub enum Entity {
    Task(usize),
    Job { id: usize, owner: Option<usize> },
    Clock,
}

struct St {
    tasks: Vec<TaskInfo>,
    token: Option<TaskId>,
    in_poll: Option<TaskId>,
    jobs: VecDeque<Job>,
    next_job: usize,
    reports: u64,
    clock_left: u32,
    jobs_run: u64,
    clock_request: Option<Duration>,
    exploring: bool,
    logical: u64,
    /// a job closure is running and its blob writes are being deferred into this list
    deferring: Option<Vec<(std::fs::File, u64, Vec<u8>)>>,
}

pub struct Ctl {
    st: RefCell<St>,
    pub cfg: CtlConfig,
    pub log: RefCell<IoLog>,
    pub fault: RefCell<Option<FaultPlan>>,
    pub panics: RefCell<Vec<String>>,
}

impl Ctl {
    pub fn new(cfg: CtlConfig) -> Rc<Self> {
        Rc::new(Self {
            st: RefCell::new(St {
                tasks: Vec::new(),
                token: None,
                in_poll: None,
                jobs: VecDeque::new(),
                next_job: 0,
                reports: 0,
                clock_left: cfg.clock_choices,
                jobs_run: 0,
                clock_request: None,
                exploring: true,
                logical: 0,
                deferring: None,
            }),
            cfg,
            log: RefCell::new(IoLog::default()),
            fault: RefCell::new(None),
            panics: RefCell::new(Vec::new()),
        })
    }

    fn yields(&self, label: Label) -> bool {
        match label {
            Label::LockRead
            | Label::LockWrite
            | Label::BlobRead
            | Label::BlobWrite
            | Label::BlobUpgradable => self.cfg.lock_points,
            Label::Send => self.cfg.send_points,
            Label::IoRead => self.cfg.read_points && self.cfg.io_mode == IoMode::Inplace,
            Label::IoWrite | Label::IoSync => {
                self.cfg.write_points && self.cfg.io_mode == IoMode::Inplace
            }
            Label::User(_) => true,
        }
    }

    /// Asks the driver to advance the paused clock by `d` before its next scheduling decision.
    pub fn request_clock(&self, d: Duration) {
        self.st.borrow_mut().clock_request = Some(d);
    }

    /// While false the driver follows the default policy and records no decisions (used for
    /// the sequential prefix and epilogue of an interleaving harness).
    pub fn set_exploring(&self, on: bool) {
        self.st.borrow_mut().exploring = on;
    }

    fn exploring(&self) -> bool {
        self.st.borrow().exploring
    }

    /// A strictly increasing logical time stamp (invocation / response order of client calls).
    pub fn stamp(&self) -> u64 {
        let mut st = self.st.borrow_mut();
        st.logical += 1;
        st.logical
    }

    /// Forget the scheduling point the running task registered in this poll (used when the
    /// future that registered it is dropped within the same poll).
    pub fn clear_pending_point(&self) {
        let mut st = self.st.borrow_mut();
        if let Some(id) = st.in_poll {
            st.tasks[id].pending_point = None;
        }
    }

    fn take_clock_request(&self) -> Option<Duration> {
        self.st.borrow_mut().clock_request.take()
    }

    pub fn current_task(&self) -> Option<TaskId> {
        self.st.borrow().in_poll
    }

    pub fn task_name(&self, id: TaskId) -> &'static str {
        self.st.borrow().tasks[id].name
    }

    pub fn task_names(&self) -> Vec<&'static str> {
        self.st.borrow().tasks.iter().map(|t| t.name).collect()
    }

    /// Tasks (by name) that ended in a panic.
    pub fn panicked_tasks(&self) -> Vec<&'static str> {
        self.st
            .borrow()
            .tasks
            .iter()
            .filter(|t| t.state == TState::Panicked)
            .map(|t| t.name)
            .collect()
    }

    /// Is a task with this name alive (registered and neither finished nor panicked)?
    pub fn task_alive(&self, name: &str) -> bool {
        self.st
            .borrow()
            .tasks
            .iter()
            .any(|t| t.name == name && !matches!(t.state, TState::Done | TState::Panicked))
    }

    pub fn state_summary(&self) -> String {
        let st = self.st.borrow();
        st.tasks
            .iter()
            .enumerate()
            .map(|(i, t)| format!("{i}:{}:{:?}{}", t.name, t.state, if t.external > 0 { "(ext)" } else { "" }))
            .collect::<Vec<_>>()
            .join(" ")
    }

    pub fn pending_jobs(&self) -> usize {
        self.st.borrow().jobs.len()
    }

    pub fn jobs_run(&self) -> u64 {
        self.st.borrow().jobs_run
    }

    fn unfinished(&self) -> Vec<(usize, &'static str, String)> {
        self.st
            .borrow()
            .tasks
            .iter()
            .enumerate()
            .filter(|(_, t)| !matches!(t.state, TState::Done | TState::Panicked))
            .map(|(i, t)| (i, t.name, format!("{:?}", t.state)))
            .collect()
    }

    fn enabled(&self) -> (Vec<Entity>, Vec<Entity>) {
        // returns (normal entities, quiescers)
        let st = self.st.borrow();
        let mut normal = Vec::new();
        let mut quiescers = Vec::new();
        for (i, t) in st.tasks.iter().enumerate() {
            match t.state {
                TState::AtPoint(Label::User(QUIESCE)) => quiescers.push(Entity::Task(i)),
                TState::AtPoint(_) | TState::Woken => normal.push(Entity::Task(i)),
                _ => {}
            }
        }
        for j in st.jobs.iter() {
            normal.push(Entity::Job {
                id: j.id,
                owner: j.owner,
            });
        }
        if st.clock_left > 0
            && st
                .tasks
                .iter()
                .any(|t| matches!(t.state, TState::Blocked))
        {
            normal.push(Entity::Clock);
        }
        (normal, quiescers)
    }

    /// A task inside an external section: a ready one if there is any, else the first.
    fn external_task(&self) -> Option<(TaskId, bool)> {
        let st = self.st.borrow();
        let mut first = None;
        for (i, t) in st.tasks.iter().enumerate() {
            if t.external > 0 && !matches!(t.state, TState::Done | TState::Panicked) {
                if matches!(t.state, TState::Woken | TState::AtPoint(_)) {
                    return Some((i, true));
                }
                if matches!(t.state, TState::New) {
                    // spawned, not yet polled by the runtime: its first poll reports in
                    continue;
                }
                first.get_or_insert((i, false));
            }
        }
        first
    }

    /// The first pending job owned by a task that is inside an external section.
    fn first_external_job(&self) -> Option<usize> {
        let ids: Vec<TaskId> = {
            let st = self.st.borrow();
            st.tasks.iter().enumerate().filter(|(_, t)| t.external > 0 && !matches!(t.state, TState::Done | TState::Panicked)).map(|(i, _)| i).collect()
        };
        ids.into_iter().find_map(|i| self.first_job_of(i))
    }

    fn reports(&self) -> u64 {
        self.st.borrow().reports
    }

    fn take_job(&self, id: usize) -> Option<Job> {
        let mut st = self.st.borrow_mut();
        let pos = st.jobs.iter().position(|j| j.id == id)?;
        st.jobs_run += 1;
        st.jobs.remove(pos)
    }

    /// first pending job submitted by task `id`
    /// Directed choice for `gather_at_send`: clients that are not standing at a send point first
    /// (lowest id), then the worker, then the lowest client at a send point.
    fn gather_choice(&self, enabled: &[Entity]) -> Option<usize> {
        let st = self.st.borrow();
        let at_send = |t: usize| matches!(st.tasks[t].state, TState::AtPoint(Label::Send));
        let is_client = |t: usize| st.tasks[t].name.starts_with("client");
        let pos = |pred: &dyn Fn(&Entity) -> bool| enabled.iter().position(|e| pred(e));
        pos(&|e| matches!(e, Entity::Job { .. }))
            .or_else(|| pos(&|e| matches!(e, Entity::Task(t) if is_client(*t) && !at_send(*t))))
            .or_else(|| pos(&|e| matches!(e, Entity::Task(t) if !is_client(*t) && st.tasks[*t].name != "main")))
            .or_else(|| pos(&|e| matches!(e, Entity::Task(t) if is_client(*t))))
    }

    fn first_job_of(&self, id: TaskId) -> Option<usize> {
        self.st.borrow().jobs.iter().find(|j| j.owner == Some(id)).map(|j| j.id)
    }
}

impl Controller for Ctl {
    fn register_task(&self, name: &'static str) -> TaskId {
        let mut st = self.st.borrow_mut();
        // a blob-creation task works on behalf of its parent: spawned inside an external section
        // (init) it belongs to that section for its whole life; the worker, which init also
        // spawns, does not
        let parent_external = st.in_poll.map_or(false, |p| st.tasks[p].external > 0);
        st.tasks.push(TaskInfo {
            name,
            state: TState::New,
            waker: None,
            external: if name == "blob-create" && parent_external { 1 } else { 0 },
            polled: false,
            pending_point: None,
        });
        st.tasks.len() - 1
    }

    fn gate_enter(&self, id: TaskId, waker: &Waker) -> bool {
        let mut st = self.st.borrow_mut();
        st.tasks[id].waker = Some(waker.clone());
        if st.token == Some(id) {
            st.in_poll = Some(id);
            st.tasks[id].state = TState::Running;
            st.tasks[id].pending_point = None;
            true
        } else {
            if matches!(st.tasks[id].state, TState::New | TState::Blocked) {
                st.tasks[id].state = TState::Woken;
            }
            st.reports += 1;
            false
        }
    }

    fn gate_exit(&self, id: TaskId, finished: bool) {
        let panicking = std::thread::panicking();
        let mut st = self.st.borrow_mut();
        st.in_poll = None;
        // one poll per grant: a wake that arrives before the driver runs again (self-wake, or a
        // blocking-pool completion racing with this poll) must not let the task run on
        st.token = None;
        st.tasks[id].polled = true;
        st.tasks[id].state = if panicking {
            TState::Panicked
        } else if finished {
            TState::Done
        } else if let Some(l) = st.tasks[id].pending_point.take() {
            TState::AtPoint(l)
        } else {
            TState::Blocked
        };
    }

    fn at_point(&self, label: Label, _waker: &Waker) -> bool {
        if !self.yields(label) {
            return false;
        }
        let mut st = self.st.borrow_mut();
        match st.in_poll {
            Some(id) if st.tasks[id].external == 0 => {
                st.tasks[id].pending_point = Some(label);
                true
            }
            _ => false,
        }
    }

    fn io_inplace(&self, len: u64) -> Option<bool> {
        Some(match self.cfg.io_mode {
            IoMode::Inplace => len <= 81_920,
            IoMode::Background => false,
        })
    }

    fn submit_job(&self, f: Box<dyn FnOnce() -> Box<dyn FnOnce() + Send> + Send>) {
        let mut st = self.st.borrow_mut();
        let id = st.next_job;
        st.next_job += 1;
        let owner = st.in_poll;
        st.jobs.push_back(Job { id, owner, stage: JobStage::Closure(f), age: 0 });
    }

    fn deferred_write(&self, file: std::fs::File, offset: u64, data: Vec<u8>) {
        let mut st = self.st.borrow_mut();
        match st.deferring.as_mut() {
            Some(v) => v.push((file, offset, data)),
            None => {
                // not expected: perform it at once
                use std::os::unix::fs::FileExt;
                let _ = file.write_all_at(&data, offset);
            }
        }
    }

    fn external(&self, begin: bool) {
        let mut st = self.st.borrow_mut();
        if let Some(id) = st.in_poll {
            if begin {
                st.tasks[id].external += 1;
            } else {
                st.tasks[id].external = st.tasks[id].external.saturating_sub(1);
            }
        }
    }

    fn tap(&self, ev: &IoEvent) -> TapAction {
        let task = self.st.borrow().in_poll;
        let mut action = match self.fault.borrow_mut().as_mut() {
            Some(plan) => plan.decide(ev),
            None => TapAction::Proceed,
        };
        if matches!(action, TapAction::Proceed)
            && matches!(ev.op, IoOp::Write { .. })
            && is_blob(&ev.path)
            && self.st.borrow().deferring.is_some()
        {
            action = TapAction::Defer;
        }
        let faulted = !matches!(action, TapAction::Proceed);
        self.log.borrow_mut().record(task, ev, faulted, &action);
        action
    }

    fn tap_done(&self, ev: &IoEvent) {
        let task = self.st.borrow().in_poll;
        self.log.borrow_mut().record_done(task, ev);
    }

    fn channel_capacity(&self) -> Option<usize> {
        self.cfg.channel_capacity
    }

    fn blob_created_at(&self) -> Option<SystemTime> {
        self.cfg.blob_created_at
    }
}

// ---------------------------------------------------------------------------------------------
// Policies
// ---------------------------------------------------------------------------------------------

#[derive(Debug, Clone, serde::Serialize, serde::Deserialize)]
pub struct Decision {
    pub enabled: Vec<Entity>,
    pub chosen: usize,
    /// index the default policy would take
    pub default: usize,
    /// is the previously running entity's continuation among `enabled`? (index)
    pub continuation: Option<usize>,
}

#[derive(Debug, Clone, PartialEq, Eq, serde::Serialize, serde::Deserialize)]
pub enum EndState {
    /// every task finished
    Finished,
    /// nothing enabled, tasks unfinished
    Deadlock(Vec<(usize, String, String)>),
    StepCap,
    /// replay prefix did not fit the run
    Divergence(String),
}

#[derive(Debug, Clone)]
pub struct RunTrace {
    /// every driver step (only when PEARL_MC_TRACE is set)
    pub steps_log: Vec<String>,
    pub decisions: Vec<Decision>,
    pub end: EndState,
    pub steps: usize,
}

impl RunTrace {
    pub fn choices(&self) -> Vec<usize> {
        self.decisions.iter().map(|d| d.chosen).collect()
    }
    pub fn preemptions(&self) -> usize {
        self.decisions
            .iter()
            .filter(|d| matches!(d.continuation, Some(c) if c != d.chosen))
            .count()
    }
}

fn continuation_index(enabled: &[Entity], last: Option<Entity>) -> Option<usize> {
    let cur = match last? {
        Entity::Task(t) => Some(t),
        Entity::Job { owner, .. } => owner,
        Entity::Clock => None,
    }?;
    // a job of the current task comes before the task itself
    enabled
        .iter()
        .position(|e| matches!(e, Entity::Job { owner: Some(o), .. } if *o == cur))
        .or_else(|| enabled.iter().position(|e| *e == Entity::Task(cur)))
}

fn default_index(enabled: &[Entity], cont: Option<usize>) -> usize {
    if let Some(c) = cont {
        return c;
    }
    // lowest owner first; a job runs before its owner; orphan jobs first; clock last
    let key = |e: &Entity| match e {
        Entity::Job { owner: None, id } => (0usize, 0usize, *id),
        Entity::Job {
            owner: Some(o),
            id,
        } => (1, *o * 2, *id),
        Entity::Task(t) => (1, *t * 2 + 1, 0),
        Entity::Clock => (2, 0, 0),
    };
    let mut best = 0;
    for i in 1..enabled.len() {
        if key(&enabled[i]) < key(&enabled[best]) {
            best = i;
        }
    }
    best
}

/// Drives the installed controller until every task has finished. `prefix` is replayed first
/// (divergence is an error), afterwards the default policy decides.
pub async fn drive(ctl: &Ctl, prefix: &[usize]) -> RunTrace {
    let mut decisions: Vec<Decision> = Vec::new();
    let tracing = std::env::var_os("PEARL_MC_TRACE").is_some();
    let mut steps_log: Vec<String> = Vec::new();
    let mut last: Option<Entity> = None;
    let mut steps = 0usize;
    let start_clock = tokio::time::Instant::now();
    let mut expected_clock = start_clock;
    loop {
        settle(ctl).await;
        if let Some(d) = ctl.take_clock_request() {
            tokio::time::advance(d).await;
            expected_clock = tokio::time::Instant::now();
            settle(ctl).await;
        }
        assert_eq!(
            tokio::time::Instant::now(),
            expected_clock,
            "machinery: the paused clock moved by itself"
        );
        // external sections: no decisions
        if let Some((id, ready)) = ctl.external_task() {
            if tracing {
                steps_log.push(format!("external {id} ready={ready} jobs={:?}", ctl.first_job_of(id)));
            }
            if ready {
                grant(ctl, id).await;
            } else if let Some(j) = ctl.first_external_job() {
                // the section's owner waits for its own file operation (e.g. during init); jobs
                // of other tasks stay where they are: running them here would depend on timing
                run_job(ctl, j);
            } else {
                // wait for the real blocking pool
                let t0 = std::time::Instant::now();
                loop {
                    tokio::task::yield_now().await;
                    match ctl.external_task() {
                        Some((i, false)) if i == id && ctl.first_external_job().is_none() => {}
                        _ => break,
                    }
                    if t0.elapsed() > Duration::from_secs(120) {
                        // the real blocking pool did not answer: a machinery matter (starved
                        // machine, or a section's owner waiting for a task the controller does
                        // not run inside sections), never a verdict about pearl
                        return RunTrace {
                            steps_log,
                            decisions,
                            end: EndState::Divergence(format!(
                                "external section: no answer from the blocking pool for 120 s; unfinished: {:?}",
                                ctl.unfinished().into_iter().map(|(i, n, s)| (i, n.to_string(), s)).collect::<Vec<_>>()
                            )),
                            steps,
                        };
                    }
                    std::thread::yield_now();
                }
            }
            continue;
        }
        let (mut enabled, quiescers) = ctl.enabled();
        if enabled.iter().all(|e| *e == Entity::Clock) && !quiescers.is_empty() {
            // quiescence: flush the clock, then let the quiescer go
            if let Some(step) = ctl.cfg.auto_clock {
                tokio::time::advance(step).await;
                expected_clock = tokio::time::Instant::now();
                settle(ctl).await;
                let (e2, _) = ctl.enabled();
                if e2.iter().any(|e| *e != Entity::Clock) {
                    continue;
                }
            }
            enabled = vec![quiescers[0]];
            // not a decision: the lowest quiescer continues
            if let Entity::Task(t) = enabled[0] {
                grant(ctl, t).await;
                last = Some(enabled[0]);
            }
            continue;
        }
        if enabled.is_empty() {
            let unfinished = ctl.unfinished();
            let end = if unfinished.is_empty() {
                EndState::Finished
            } else {
                EndState::Deadlock(
                    unfinished
                        .into_iter()
                        .map(|(i, n, s)| (i, n.to_string(), s))
                        .collect(),
                )
            };
            return RunTrace {
                steps_log,
                decisions,
                end,
                steps,
            };
        }
        // fairness towards the blocking pool
        let starving = {
            let mut st = ctl.st.borrow_mut();
            for j in st.jobs.iter_mut() {
                j.age += 1;
            }
            st.jobs.iter().find(|j| j.age > JOB_AGE_LIMIT).map(|j| j.id)
        };
        if let Some(id) = starving {
            if tracing {
                steps_log.push(format!("aged job {id}"));
            }
            run_job(ctl, id);
            steps += 1;
            continue;
        }
        steps += 1;
        if steps > ctl.cfg.step_cap {
            return RunTrace {
                steps_log,
                decisions,
                end: EndState::StepCap,
                steps,
            };
        }
        let cont = continuation_index(&enabled, last);
        let mut def = default_index(&enabled, cont);
        if ctl.cfg.gather_at_send {
            if let Some(g) = ctl.gather_choice(&enabled) {
                def = g;
            }
        }
        let chosen = if enabled.len() == 1 {
            0
        } else if !ctl.exploring() {
            def
        } else {
            let i = decisions.len();
            let c = if i < prefix.len() { prefix[i] } else { def };
            if c >= enabled.len() {
                return RunTrace {
                    steps_log,
                    decisions,
                    end: EndState::Divergence(format!(
                        "decision {i}: choice {c} out of range, enabled {enabled:?}"
                    )),
                    steps,
                };
            }
            decisions.push(Decision {
                enabled: enabled.clone(),
                chosen: c,
                default: def,
                continuation: cont,
            });
            c
        };
        let e = enabled[chosen];
        if tracing {
            steps_log.push(format!("{:?} of {:?} states {}", e, enabled, ctl.state_summary()));
        }
        match e {
            Entity::Task(t) => grant(ctl, t).await,
            Entity::Job { id, .. } => run_job(ctl, id),
            Entity::Clock => {
                ctl.st.borrow_mut().clock_left -= 1;
                tokio::time::advance(ctl.cfg.clock_step).await;
                expected_clock = tokio::time::Instant::now();
            }
        }
        last = Some(e);
    }
}

async fn settle(ctl: &Ctl) {
    // a pass is quiet if no gate reported during it; timers fired by a park are polled one pass
    // later than the park, hence two consecutive quiet passes
    let mut quiet = 0;
    while quiet < 2 {
        let before = ctl.reports();
        tokio::task::yield_now().await;
        if ctl.reports() == before {
            quiet += 1;
        } else {
            quiet = 0;
        }
    }
}

async fn grant(ctl: &Ctl, id: TaskId) {
    let waker = {
        let mut st = ctl.st.borrow_mut();
        st.token = Some(id);
        st.tasks[id].polled = false;
        st.tasks[id].waker.clone()
    };
    waker.expect("granted task has no waker").wake();
    let mut spins = 0;
    loop {
        tokio::task::yield_now().await;
        if ctl.st.borrow().tasks[id].polled {
            break;
        }
        spins += 1;
        assert!(spins < 1_000_000, "machinery: granted task was never polled");
    }
    ctl.st.borrow_mut().token = None;
}

fn run_job(ctl: &Ctl, id: usize) {
    if let Some(job) = ctl.take_job(id) {
        // the job's file operations are attributed to its owner in the log
        let prev = {
            let mut st = ctl.st.borrow_mut();
            std::mem::replace(&mut st.in_poll, job.owner)
        };
        match job.stage {
            JobStage::Closure(f) => {
                let split = ctl.cfg.split_write_jobs && ctl.cfg.io_mode == IoMode::Background && ctl.exploring();
                if split {
                    ctl.st.borrow_mut().deferring = Some(Vec::new());
                }
                let deliver = f();
                let writes = ctl.st.borrow_mut().deferring.take().unwrap_or_default();
                if writes.is_empty() {
                    deliver();
                } else {
                    // second step of the same job: it keeps its id and its place in the order
                    let mut st = ctl.st.borrow_mut();
                    st.jobs.push_front(Job { id: job.id, owner: job.owner, stage: JobStage::Finish { writes, deliver }, age: 0 });
                    st.jobs_run -= 1;
                }
            }
            JobStage::Finish { writes, deliver } => {
                use std::os::unix::fs::FileExt;
                for (file, offset, data) in writes {
                    // a failure here cannot be reported to the closure any more; split mode is
                    // only used in fault-free explorations
                    file.write_all_at(&data, offset).expect("deferred write");
                }
                deliver();
            }
        }
        ctl.st.borrow_mut().in_poll = prev;
    }
}

// ---------------------------------------------------------------------------------------------
// One execution
// ---------------------------------------------------------------------------------------------

pub struct Execution<T> {
    pub trace: RunTrace,
    /// result of the main task: Ok(value) or Err(panic message / cancelled)
    pub result: Result<T, String>,
    pub ctl: Rc<Ctl>,
}

thread_local! {
    static PANIC_MSGS: RefCell<Vec<String>> = RefCell::new(Vec::new());
    static CURRENT: RefCell<Option<Rc<Ctl>>> = RefCell::new(None);
}

/// Access to the harness controller of the execution running on this thread.
pub fn with_ctl<R>(f: impl FnOnce(&Ctl) -> R) -> R {
    let c = CURRENT.with(|c| c.borrow().clone()).expect("no execution on this thread");
    f(&c)
}

pub fn install_panic_hook() {
    std::panic::set_hook(Box::new(|info| {
        let msg = format!("{info}");
        PANIC_MSGS.with(|p| p.borrow_mut().push(msg));
    }));
}

pub fn take_panic_msgs() -> Vec<String> {
    PANIC_MSGS.with(|p| std::mem::take(&mut *p.borrow_mut()))
}

/// Runs `main` as the gated task 0 on a fresh paused current-thread runtime under a fresh
/// controller; `prefix` then the default policy schedule it and everything it spawns.
pub fn execute<T, F, Fut>(cfg: CtlConfig, prefix: &[usize], fault: Option<FaultPlan>, main: F) -> Execution<T>
where
    F: FnOnce() -> Fut,
    Fut: Future<Output = T> + Send + 'static,
    T: Send + 'static,
{
    let ctl = Ctl::new(cfg);
    *ctl.fault.borrow_mut() = fault;
    let rt = tokio::runtime::Builder::new_current_thread()
        .enable_time()
        .start_paused(true)
        .build()
        .expect("runtime");
    verif::install(ctl.clone());
    CURRENT.with(|c| *c.borrow_mut() = Some(ctl.clone()));
    let _ = take_panic_msgs();
    let (trace, result) = rt.block_on(async {
        let handle = verif::spawn("main", main());
        let trace = drive(&ctl, prefix).await;
        let result = if handle.is_finished() {
            match handle.await {
                Ok(v) => Ok(v),
                Err(e) => Err(format!("main task failed: {e}")),
            }
        } else {
            handle.abort();
            Err("main task did not finish".to_string())
        };
        (trace, result)
    });
    drop(rt);
    verif::uninstall();
    CURRENT.with(|c| *c.borrow_mut() = None);
    ctl.panics.borrow_mut().extend(take_panic_msgs());
    Execution { trace, result, ctl }
}

/// A quiesce point: returns when the rest of the system is idle.
pub async fn quiesce() {
    verif::point(Label::User(QUIESCE)).await;
}

/// Bounded-preemption DFS over schedules. `run` executes one schedule (prefix → default) and
/// returns its trace; `visit` is called for every completed execution and returns `false` to
/// stop the search. Returns (executions, bound completed?).
pub fn explore<R>(
    bound: usize,
    max_execs: usize,
    mut run: impl FnMut(&[usize]) -> (RunTrace, R),
    mut visit: impl FnMut(&RunTrace, R) -> bool,
) -> (usize, bool) {
    let mut stack: Vec<Vec<usize>> = vec![Vec::new()];
    let mut execs = 0;
    while let Some(prefix) = stack.pop() {
        if execs >= max_execs {
            return (execs, false);
        }
        let (trace, r) = run(&prefix);
        execs += 1;
        let go_on = visit(&trace, r);
        if !go_on {
            return (execs, false);
        }
        if matches!(trace.end, EndState::Divergence(_)) {
            continue;
        }
        // branch at every decision at or after the prefix
        let mut pre_before = 0usize; // preemptions in decisions[..i]
        for (i, d) in trace.decisions.iter().enumerate() {
            if i >= prefix.len() {
                for alt in 0..d.enabled.len() {
                    if alt == d.chosen {
                        continue;
                    }
                    let cost = pre_before
                        + match d.continuation {
                            Some(c) if c != alt => 1,
                            _ => 0,
                        };
                    if cost <= bound {
                        let mut p: Vec<usize> = trace.decisions[..i].iter().map(|d| d.chosen).collect();
                        p.push(alt);
                        stack.push(p);
                    }
                }
            }
            if matches!(d.continuation, Some(c) if c != d.chosen) {
                pre_before += 1;
            }
        }
    }
    (execs, true)
}

pub fn is_blob(path: &Path) -> bool {
    path.extension().map_or(false, |e| e == "blob")
}

pub fn is_index(path: &Path) -> bool {
    path.extension().map_or(false, |e| e == "index")
}

#[allow(dead_code)]
pub fn op_name(op: &IoOp) -> &'static str {
    match op {
        IoOp::Open { .. } => "open",
        IoOp::Write { .. } => "write",
        IoOp::Read { .. } => "read",
        IoOp::Sync { .. } => "sync",
        IoOp::Truncate => "truncate",
        IoOp::Rename { .. } => "rename",
        IoOp::Remove => "remove",
        IoOp::CreateDir => "mkdir",
    }
}
